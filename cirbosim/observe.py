"""Observation of real cirbo objects through their public API only.

`snap` reads (gates, inputs, outputs, blocks, users) of a Circuit into a RefNet `Net`.
`wf` is the well-formedness predicate of property C02, computed from that public
view and compared with independent recomputations by the model.
"""
from __future__ import annotations

import copy as _copy

from .refnet import Net, ModelError


class ObserveError(Exception):
    """The public view could not even be read."""


def snap(real):
    """Return (Net, users: label -> sorted list) read through the public API."""
    gates = {}
    for key, g in real.gates.items():
        if g.label != key:
            raise ObserveError(f'gate stored under {key!r} reports label {g.label!r}')
        gates[key] = (g.gate_type.name, tuple(g.operands))
    blocks = {}
    for name, b in real.blocks.items():
        blocks[name] = (list(b.inputs), list(b.gates), list(b.outputs))
    net = Net(gates, list(real.inputs), list(real.outputs), blocks)
    users = {lab: sorted(real.get_gate_users(lab)) for lab in gates}
    return net, users


def storage_order(real):
    return list(real.gates.keys())


def wf_static(net: Net, users) -> list[tuple[str, str]]:
    """Clauses (a), (b), (c), (e) of C02 and acyclicity, on a snapshot."""
    bad = []
    for d in net.dangling():
        bad.append(('operand-missing', d))
    for o in net.outputs:
        if o not in net.gates:
            bad.append(('output-missing', o))
    want = net.users()
    for g in net.gates:
        if users.get(g, []) != want[g]:
            bad.append(('users-index', f'{g}: reported {users.get(g)} expected {want[g]}'))
    ins = sorted(g for g, (t, _) in net.gates.items() if t == 'INPUT')
    if sorted(net.inputs) != ins:
        bad.append(('inputs-list', f'inputs {net.inputs} vs INPUT gates {ins}'))
    if not net.dangling() and not net.is_acyclic():
        bad.append(('cyclic', 'operand graph has a cycle'))
    for name, (bi, bg, bo) in net.blocks.items():
        for lab in bg:
            if lab not in net.gates:
                bad.append(('block-gate-missing', f'{name}:{lab}'))
        for lab in bi:
            if lab not in net.gates:
                bad.append(('block-input-missing', f'{name}:{lab}'))
    return bad


def wf_topsort(real, net: Net) -> list[tuple[str, str]]:
    """Clause (d): top_sort in both directions yields every gate exactly once in
    dependency order.  A step cap (size + 1 yields) bounds the generator."""
    bad = []
    n = len(net.gates)
    for inverse in (True, False):
        seen = []
        try:
            it = iter(real.top_sort(inverse=inverse))
            for _ in range(n + 1):
                try:
                    g = next(it)
                except StopIteration:
                    break
                seen.append(g.label)
            else:
                bad.append(('topsort-overrun', f'inverse={inverse} yields more than {n} gates'))
                continue
        except Exception as e:  # noqa
            bad.append(('topsort-raises', f'inverse={inverse}: {type(e).__name__}'))
            continue
        if sorted(seen) != sorted(net.gates):
            bad.append(('topsort-coverage', f'inverse={inverse}: {len(seen)} of {n} gates, {len(set(seen))} distinct'))
            continue
        pos = {g: i for i, g in enumerate(seen)}
        for g, (_, ops) in net.gates.items():
            for o in ops:
                if o in pos and ((pos[o] > pos[g]) if inverse else (pos[o] < pos[g])):
                    bad.append(('topsort-order', f'inverse={inverse}: {g} vs operand {o}'))
                    break
    return bad


def same_view(a: Net, b: Net) -> bool:
    return a.gates == b.gates and a.inputs == b.inputs and a.outputs == b.outputs and _blk(a) == _blk(b)


def _blk(n: Net):
    return {k: (list(i), list(g), list(o)) for k, (i, g, o) in n.blocks.items()}


def wf_copy(real, net: Net, users, deep=False) -> list[tuple[str, str]]:
    """Clause (f): a copy is equal to its original and shares no mutable state."""
    bad = []
    try:
        cp = _copy.deepcopy(real) if deep else _copy.copy(real)
    except Exception as e:  # noqa
        return [('copy-raises', f'{type(e).__name__}: {e}')]
    try:
        if not (cp == real):
            bad.append(('copy-unequal', 'copy != original by cirbo equality'))
        cnet, cusers = snap(cp)
        if not (cnet.gates == net.gates and cnet.inputs == net.inputs and cnet.outputs == net.outputs):
            bad.append(('copy-unequal', 'public view of the copy differs'))
        for code, msg in wf_static(cnet, cusers):
            bad.append(('copy-' + code, msg))
        # mutate the copy through the public API; the original must not move
        lab = '__cp_probe__'
        while lab in cnet.gates:
            lab += '_'
        cp.add_inputs([lab])
        cp.mark_as_output(lab)
        if cnet.gates:
            first = next(iter(cnet.gates))
            cp.rename_gate(first, lab + 'r')
        for name, (bi, bg, bo) in cnet.blocks.items():
            b = cp.get_block(name)
            b.gates.append(lab)
            b.inputs.append(lab)
            b.outputs.append(lab)
        now, nusers = snap(real)
        if not same_view(now, net) or nusers != users:
            bad.append(('copy-shares-state', 'mutating the copy changed the original'))
    except Exception as e:  # noqa
        bad.append(('copy-probe-raises', f'{type(e).__name__}: {e}'))
    return bad


def wf(real, net=None, users=None, with_copy=True):
    if net is None:
        net, users = snap(real)
    bad = wf_static(net, users)
    if not any(c in ('operand-missing', 'cyclic') for c, _ in bad):
        bad += wf_topsort(real, net)
    if with_copy and not bad:
        bad += wf_copy(real, net, users)
    return bad


def build_real(Circuit, GT, net: Net):
    """Re-create a real circuit from a model netlist using public constructors only."""
    c = Circuit()
    for g in net.topo():
        t, ops = net.gates[g]
        c.emplace_gate(g, GT[t], tuple(ops))
    c.set_inputs(list(net.inputs))
    c.set_outputs(list(net.outputs))
    for name, (bi, bg, bo) in net.blocks.items():
        c.make_block(name, list(bg), list(bo), list(bi))
    return c
