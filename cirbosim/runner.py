"""In-process side of a world: generate, execute and shrink runs.  Used by worker.py."""
from __future__ import annotations

import json
import os
import random
import sys

from . import ENGINE_VERSION, ctx, world
from .util import Counter, H, digest

ENGINE_OF = {
    'C02': 'hist', 'C10': 'hist', 'C19': 'hist', 'C14': 'hist', 'C07': 'hist', 'C08': 'hist', 'C09': 'hist',
    'C05': 'hist', 'C13': 'hist', 'C06': 'syn', 'C04': 'min', 'C11': 'hist', 'C16': 'hist', 'C20': 'hist',
}

_engines = {}


def engine_for(prop):
    name = ENGINE_OF[prop]
    if name not in _engines:
        mods = world.boot()
        if name == 'hist':
            from .engines.hist_all import HistAll as E
        elif name == 'sat':
            from .engines.sat import SatEngine as E
        elif name == 'syn':
            from .engines.syn import SynEngine as E
        elif name == 'min':
            from .engines.minz import MinEngine as E
        elif name == 'io':
            from .engines.io import IOEngine as E
        elif name == 'trav':
            from .engines.trav import TravEngine as E
        _engines[name] = E(mods)
    return _engines[name]


def run_seed_of(seed, prop, tier, idx):
    return H('run', seed, prop, tier, idx)


def hashseed_of(seed, prop, tier, batch):
    return H('hashseed', seed, prop, tier, batch) % 4294967295


def gen_run(prop, tier, seed, idx):
    eng = engine_for(prop)
    rs = run_seed_of(seed, prop, tier, idx)
    run = eng.gen(random.Random(rs), prop, tier, idx)
    run['run_seed'] = rs
    run['idx'] = idx
    return run


def exec_run(prop, run):
    eng = engine_for(prop)
    return eng.execute(run, prop, run_seed=run.get('run_seed', 0))


def explore_batch(job):
    """Execute run indices [start, start+count) of one batch; return a JSON-able summary."""
    prop, tier, seed = job['prop'], job['tier'], job['seed']
    agg = {
        'batch': job['batch'], 'runs': 0, 'ops': 0, 'digests': [], 'outcomes': Counter(), 'scheduled': Counter(),
        'fired': Counter(), 'probes': Counter(), 'peer_calls': Counter(), 'cross': Counter(), 'virtual_s': 0.0,
        'states': set(), 'viol_runs': [], 'samples': [], 'harness_errors': [], 'hashseed': os.environ.get('PYTHONHASHSEED'),
    }
    for idx in range(job['start'], job['start'] + job['count']):
        run = gen_run(prop, tier, seed, idx)
        try:
            res = exec_run(prop, run)
        except Exception as e:  # harness failure: never a verdict
            import traceback

            agg['harness_errors'].append({'idx': idx, 'err': f'{type(e).__name__}: {e}', 'tb': traceback.format_exc()[-1500:]})
            agg['runs'] += 1
            continue
        agg['runs'] += 1
        agg['ops'] += len(res.events)
        agg['digests'].append([idx, res.log_digest()])
        st = res.stats
        agg['outcomes'].merge(st.outcomes)
        agg['scheduled'].merge(st.scheduled)
        agg['fired'].merge(st.fired)
        agg['probes'].merge(st.probes)
        agg['peer_calls'].merge(st.peer_calls)
        agg['cross'].merge(res.cross)
        agg['virtual_s'] += st.virtual_s
        agg['states'].update(res.states)
        mine = [v for v in res.violations if v['prop'] == prop]
        others = [v for v in res.violations if v['prop'] != prop]
        for v in others:
            agg['cross'].bump('violation-of-other-property:' + v.sig)
        if mine:
            agg['viol_runs'].append({'idx': idx, 'run': run, 'sigs': sorted({v.sig for v in mine}),
                                     'first': dict(mine[0])})
        if len(agg['samples']) < 2 and res.events and not mine:
            agg['samples'].append({'idx': idx, 'trace': [_short(e) for e in res.events[:12]]})
    # compact: 48-bit integers instead of strings (the driver only counts distinct ones)
    agg['states'] = sorted({H(x) & 0xFFFFFFFFFFFF for x in agg['states']})
    agg['batch_digest'] = digest(agg['digests'])
    if not job.get('want_digests'):
        agg['digests'] = []
    return agg


def _short(ev):
    return {k: ev[k] for k in ('k', 'call', 'out') if k in ev}


def exec_one(job):
    """Replay one recorded run (op list) - or a recorded sequence of runs executed in one world, the last of
    which is judged - and report everything about it."""
    prop = job['prop']
    runs = job.get('runs') or [job['run']]
    for r in runs[:-1]:
        try:
            exec_run(prop, r)
        except Exception:
            pass
    res = exec_run(prop, runs[-1])
    mine = [dict(v) for v in res.violations if v['prop'] == prop]
    return {'digest': res.log_digest(), 'violations': mine, 'sigs': sorted({Violation_sig(v) for v in mine}),
            'events': res.events, 'all_violations': [dict(v) for v in res.violations]}


def Violation_sig(v):
    return f"{v['prop']}/{v['oracle']}/{v['disc']}"


def shrink(job):
    """ddmin by deletion over the op list (and then over fault entries), keeping the
    target signature.  Everything runs in this process under this hash seed."""
    prop, run, target = job['prop'], job['run'], job['sig']
    budget = job.get('budget', 400)
    tries = 0

    def fails(r):
        nonlocal tries
        tries += 1
        try:
            res = exec_run(prop, r)
        except Exception:
            return None
        for v in res.violations:
            if v['prop'] == prop and v.sig == target:
                return v['op']
        return None

    cur = dict(run)
    ops = list(run['ops'])
    at = fails(cur)
    if at is None:
        return {'ok': False, 'reason': 'target signature did not recur in the shrinking process', 'run': run}
    ops = ops[: at + 1]
    cur['ops'] = ops
    n = 2
    while len(ops) >= 2 and tries < budget:
        chunk = max(1, len(ops) // n)
        removed = False
        i = 0
        while i < len(ops) and tries < budget:
            cand = ops[:i] + ops[i + chunk:]
            if cand:
                c2 = dict(cur)
                c2['ops'] = cand
                at = fails(c2)
                if at is not None:
                    ops = cand[: at + 1]
                    cur['ops'] = ops
                    removed = True
                    n = max(n - 1, 2)
                    continue
            i += chunk
        if not removed:
            if chunk == 1:
                break
            n = min(n * 2, len(ops))
    # delete fault entries one by one
    for i, op in enumerate(list(ops)):
        for f in list(op.get('f', ())):
            if tries >= budget:
                break
            op2 = dict(op)
            op2['f'] = [x for x in op['f'] if x is not f]
            if not op2['f']:
                op2.pop('f')
            cand = ops[:i] + [op2] + ops[i + 1:]
            c2 = dict(cur)
            c2['ops'] = cand
            if fails(c2) is not None:
                ops = cand
                cur['ops'] = ops
                op = op2
    # engine-specific argument shrinking
    eng = engine_for(prop)
    if hasattr(eng, 'shrink_args'):
        cur = eng.shrink_args(cur, lambda r: fails(r) is not None, lambda: tries < budget)
    return {'ok': True, 'run': cur, 'tries': tries}


def world_prefix(job):
    """A violation that does not recur when its run is replayed alone may depend on state that earlier runs of
    the same world (process) left behind - a cache, a class-level attribute.  Re-execute the batch prefix and,
    if the signature recurs, shrink the list of earlier runs by deletion (ddmin over runs)."""
    prop, tier, seed, sig = job['prop'], job['tier'], job['seed'], job['sig']
    start, idx = job['start'], job['idx']
    runs = [gen_run(prop, tier, seed, i) for i in range(start, idx + 1)]

    # NOTE: every trial must run in a world whose global state is that of a fresh interpreter, so trials are
    # executed in *sub-processes* by the driver; here we only do the first, full-prefix confirmation.
    out = exec_one({'prop': prop, 'runs': runs})
    return {'recurs': sig in out['sigs'], 'runs': runs, 'result': out}


def world_trial(job):
    out = exec_one({'prop': job['prop'], 'runs': job['runs']})
    return {'recurs': job['sig'] in out['sigs'], 'result': out}
