"""SimPool + SimClock: pebble's process pool and its deadline clock as a peer.

`pool.schedule(fn, args, timeout=T)` returns a future whose fate is fixed by the
current op's explicit fault list: no fault -> the job runs in-process and completes
after a virtual duration d < T drawn from the op's sub-seed; `timeout` -> the clock
advances by T, the job is not run and `result()` raises concurrent.futures.TimeoutError;
`death` -> `result()` raises ProcessExpired.  No real process, no real clock.
"""
import concurrent.futures
import math
import types

from .. import ctx


class ProcessExpired(Exception):
    def __init__(self, msg='Abnormal termination', code=0):
        super().__init__(msg)
        self.exitcode = code


class _Future:
    def __init__(self, fate, fn, args, kwargs):
        self._fate, self._fn, self._args, self._kwargs = fate, fn, args, kwargs
        self._done = False
        self._value = None

    def result(self, timeout=None):
        if self._fate == 'timeout':
            raise concurrent.futures.TimeoutError()
        if self._fate == 'death':
            raise ProcessExpired('Abnormal termination', 9)
        if not self._done:
            self._value = self._fn(*self._args, **self._kwargs)
            self._done = True
        return self._value

    def cancel(self):
        return False

    def done(self):
        return True


class ProcessPool:
    def __init__(self, max_workers=1, context=None, **kw):
        self.max_workers = max_workers
        self._open = True

    def __enter__(self):
        return self

    def __exit__(self, *a):
        self.close()
        self.join()
        return False

    def schedule(self, function, args=(), kwargs=None, timeout=None):
        c = ctx.cur
        f = c.fault_at('pool.call')
        c.stats.peer_calls.bump('pool.call')
        T = float(timeout) if timeout else 0.0
        rng = c.rng('pool.call', c.calls['pool.call'])
        fate = 'ok'
        if f is not None and f['kind'] in ('timeout', 'death') and (T > 0 or f['kind'] == 'death'):
            fate = f['kind']
        big = c.cfg.get('pool_big_clauses')
        if fate == 'ok' and big and T > 0:
            # a job far too large for the simulated solver within the deadline: virtual duration > T
            try:
                size = len(args[1]) if len(args) > 1 else 0
            except Exception:
                size = 0
            if size > big:
                fate = 'timeout'
                c.stats.fired.bump('pool.call:timeout-by-size')
        if fate == 'timeout':
            dt = T
        elif fate == 'death':
            dt = T * rng.random() if T else 0.0
        else:
            # log-uniform in [T/100, T/2]; a job "just before the deadline" now and then
            if T:
                if rng.random() < 0.1:
                    dt = T * (1 - 1e-6)
                    c.stats.probes.bump('pool:completed-just-before-deadline')
                else:
                    dt = math.exp(rng.uniform(math.log(T / 100), math.log(T / 2)))
            else:
                dt = 0.0
        c.clock += dt
        c.stats.virtual_s += dt
        c.peer_log.append(f'pool.call#{c.calls["pool.call"]}:{fate}')
        return _Future(fate, function, list(args), dict(kwargs or {}))

    def close(self):
        self._open = False

    def stop(self):
        self._open = False

    def join(self, timeout=None):
        pass


def make_module():
    m = types.ModuleType('pebble')
    m.__cirbosim__ = True
    m.ProcessPool = ProcessPool
    m.ProcessExpired = ProcessExpired
    return m


class _DateTimeMod:
    """`datetime` as seen by circuit_search: `datetime.datetime.now()` reads SimClock."""

    class datetime:
        @staticmethod
        def now():
            return f'simclock+{ctx.cur.clock:.6f}s'
