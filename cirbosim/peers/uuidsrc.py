"""SimUUID: the uuid source as a peer.

cirbo calls `uuid.uuid4().hex` for every helper label.  Those labels are not
cosmetic (sorted work lists break ties by label), so their *order* is a decision of
the simulation: ascending, descending, interleaved or seeded-random per run.  A
collision (the same value handed out twice) is an explicit fault of the current op.
"""
import uuid as _uuid

from .. import ctx
from ..util import H

_real_uuid4 = _uuid.uuid4


class _U:
    __slots__ = ('hex',)

    def __init__(self, h):
        self.hex = h

    def __str__(self):
        h = self.hex
        return f'{h[:8]}-{h[8:12]}-{h[12:16]}-{h[16:20]}-{h[20:]}'


class SimUUID:
    def __init__(self):
        self.reset(0, 'asc')

    def reset(self, run_seed: int, order: str):
        self.run_seed = run_seed
        self.order = order
        self.n = 0
        self.last = None

    def __call__(self):
        c = ctx.cur
        f = c.fault_at('uuid')
        c.stats.peer_calls.bump('uuid')
        if f is not None and f['kind'] == 'collide' and self.last is not None:
            return _U(self.last)
        self.n += 1
        k = self.n
        if self.order == 'asc':
            v = k
        elif self.order == 'desc':
            v = (1 << 128) - 1 - k
        elif self.order == 'interleave':
            v = (k // 2) if k % 2 == 0 else (1 << 128) - 1 - (k // 2)
        else:
            v = (H(self.run_seed, 'uuid', k) << 64) | H(self.run_seed, 'uuid2', k)
        self.last = format(v, '032x')
        return _U(self.last)


source = SimUUID()


def install():
    _uuid.uuid4 = source


def uninstall():
    _uuid.uuid4 = _real_uuid4
