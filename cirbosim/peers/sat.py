"""SimSAT: the slice of PySAT that cirbo uses, as an in-process peer.

Satisfiability is decided by z3 (DIMACS text fed through `Solver.from_string`) or,
for very small formulas, by the local DPLL.  *Which* model is handed back is a
decision of the simulation: it is derived from the current op's sub-seed (z3 random
seed / phase, then a short walk flipping seeded variables while every clause stays
satisfied).  Every model is re-checked clause by clause before it is returned, so the
peer never leaves the contract of a sound and complete solver.
"""
from __future__ import annotations

import sys
import types

from .. import ctx

SOLVER_NAMES = {
    'cadical103', 'cd', 'cdl', 'cadical153', 'cd15', 'cd153', 'cadical195', 'cd19', 'cd195',
    'crypto', 'cms', 'cms5', 'gluecard3', 'gc3', 'gluecard4', 'gc4', 'glucose3', 'g3',
    'glucose4', 'g4', 'glucose42', 'g42', 'lingeling', 'lgl', 'maplechrono', 'mcb',
    'maplecm', 'mcm', 'maplesat', 'mpl', 'mergesat3', 'mg3', 'minicard', 'mc',
    'minisat22', 'm22', 'minisat-gh', 'mgh',
}


class SimSATError(Exception):
    pass


# ----------------------------------------------------------------- tiny DPLL
def dpll(clauses, nvars=None, assume=()):
    """Return a total model (list of signed ints over 1..nvars) or None."""
    if nvars is None:
        nvars = max((abs(l) for c in clauses for l in c), default=0)
    assign: dict[int, bool] = {}
    for l in assume:
        if assign.get(abs(l), l > 0) != (l > 0):
            return None
        assign[abs(l)] = l > 0
    cls = [list(c) for c in clauses]

    def simplify(cls, assign):
        changed = True
        while changed:
            changed = False
            out = []
            for c in cls:
                sat = False
                rest = []
                for l in c:
                    v = assign.get(abs(l))
                    if v is None:
                        rest.append(l)
                    elif v == (l > 0):
                        sat = True
                        break
                if sat:
                    continue
                if not rest:
                    return None
                if len(rest) == 1:
                    assign[abs(rest[0])] = rest[0] > 0
                    changed = True
                else:
                    out.append(rest)
            cls = out
        return cls

    def rec(cls, assign):
        cls = simplify(cls, assign)
        if cls is None:
            return None
        if not cls:
            return assign
        l = cls[0][0]
        for val in (l > 0, not (l > 0)):
            a2 = dict(assign)
            a2[abs(l)] = val
            r = rec(cls, a2)
            if r is not None:
                return r
        return None

    # the search recurses once per decision; the limit is raised for its duration only - the interpreter the
    # library runs in keeps the default limit
    old_limit = sys.getrecursionlimit()
    sys.setrecursionlimit(max(old_limit, 10000))
    try:
        r = rec(cls, assign)
    finally:
        sys.setrecursionlimit(old_limit)
    if r is None:
        return None
    return [v if r.get(v, False) else -v for v in range(1, nvars + 1)]


def check_model(clauses, model) -> bool:
    pos = set(model)
    for c in clauses:
        if not any(l in pos for l in c):
            return False
    return True


# ----------------------------------------------------------------- z3 backend
_z3 = None


def _get_z3():
    global _z3
    if _z3 is None:
        import z3  # noqa

        _z3 = z3
    return _z3


def z3_solve(clauses, nvars, seed, assume=()):
    z3 = _get_z3()
    lines = [f'p cnf {nvars} {len(clauses) + len(assume)}']
    for c in clauses:
        lines.append(' '.join(map(str, c)) + ' 0')
    for l in assume:
        lines.append(f'{l} 0')
    # a fresh context per call: nothing in z3 (AST tables, symbol numbering, heuristics state) is shared between
    # calls, so the answer is a function of (clauses, seed) and not of what the process solved before
    zctx = z3.Context()
    s = z3.Solver(ctx=zctx)
    s.set('random_seed', seed % (1 << 30))
    s.set('phase_selection', 5)
    s.from_string('\n'.join(lines))
    r = s.check()
    if r == z3.unsat:
        return None
    if r != z3.sat:
        raise SimSATError('z3 returned unknown')
    m = s.model()
    val = {}
    for d in m.decls():
        name = d.name()
        if name.startswith('k!'):
            val[int(name[2:])] = z3.is_true(m[d])
    return val


def decide(clauses, nvars=None, seed=0, assume=()):
    """Harness-side decision procedure (also used by oracles): model list or None."""
    if nvars is None:
        nvars = max((abs(l) for c in clauses for l in c), default=0)
        nvars = max([nvars] + [abs(l) for l in assume])
    if any(len(c) == 0 for c in clauses):
        return None
    if nvars <= 12 and len(clauses) <= 60:
        return dpll(clauses, nvars, assume)
    val = z3_solve(clauses, nvars, seed, assume)
    if val is None:
        return None
    return [v if val.get(v, False) else -v for v in range(1, nvars + 1)]


# ----------------------------------------------------------------- the peer
class CNF:
    def __init__(self, from_clauses=None, **kw):
        self.clauses = []
        self.nv = 0
        if from_clauses:
            for c in from_clauses:
                self.append(c)

    def append(self, clause, **kw):
        c = list(clause)
        for l in c:
            if abs(l) > self.nv:
                self.nv = abs(l)
        self.clauses.append(c)

    def extend(self, clauses):
        for c in clauses:
            self.append(c)

    def __iter__(self):
        return iter(self.clauses)

    def __len__(self):
        return len(self.clauses)


class IDPool:
    def __init__(self, start_from=1, occupied=()):
        self.top = start_from - 1
        self.obj2id = {}
        self.id2obj = {}

    def id(self, obj=None):
        c = ctx.cur
        if c is not None and c.faults:
            # a failing allocation while the variable table grows: only consulted when the op has faults scheduled
            f = c.fault_at('idpool.id')
            if f is not None and f.get('kind') == 'alloc-failure':
                raise MemoryError('SimSAT: allocation failed while the variable pool was growing (injected)')
        if obj is None:
            self.top += 1
            return self.top
        i = self.obj2id.get(obj)
        if i is None:
            self.top += 1
            i = self.top
            self.obj2id[obj] = i
            self.id2obj[i] = obj
        return i

    def obj(self, vid):
        return self.id2obj.get(vid)


class Solver:
    def __init__(self, name='m22', bootstrap_with=None, **kw):
        if name not in SOLVER_NAMES:
            raise NotImplementedError(name)
        self.name = name
        self._clauses = []
        self._nv = 0
        self._model = None
        self._status = None
        self._deleted = False
        if bootstrap_with is not None:
            self.append_formula(bootstrap_with)

    def __enter__(self):
        return self

    def __exit__(self, *a):
        self.delete()
        return False

    def add_clause(self, clause, no_return=True):
        c = [int(l) for l in clause]
        for l in c:
            if l == 0:
                raise SimSATError('literal 0')
            if abs(l) > self._nv:
                self._nv = abs(l)
        self._clauses.append(c)

    def append_formula(self, formula, no_return=True):
        for c in getattr(formula, 'clauses', formula):
            self.add_clause(c)

    def nof_vars(self):
        return self._nv

    def nof_clauses(self):
        return len(self._clauses)

    def solve(self, assumptions=()):
        if self._deleted:
            raise SimSATError('solve() after delete()')
        c = ctx.cur
        site = 'sat.solve'
        fault = c.fault_at(site)  # counts the call
        k = c.calls[site]
        c.stats.peer_calls.bump(site)
        if fault is not None and fault.get('kind') == 'backend-error':
            # the back end gives up (out of memory, internal error): PySAT surfaces that as an exception from solve()
            raise RuntimeError('SimSAT: the solver back end failed (injected)')
        rng = c.rng(site, k)
        clauses = self._clauses
        nv = max([self._nv] + [abs(l) for l in assumptions])
        if any(len(cl) == 0 for cl in clauses):
            self._model, self._status = None, False
            return False
        model = decide(clauses, nv, seed=rng.getrandbits(30), assume=tuple(assumptions))
        if model is None:
            self._model, self._status = None, False
            c.stats.probes.bump('sat:unsat')
            return False
        # seeded walk: flip variables while every clause stays satisfied
        if len(clauses) <= 4000 and nv:
            fixed = {abs(l) for l in assumptions}
            occ = None
            cur = set(model)
            tries = min(12, nv)
            for _ in range(tries):
                v = rng.randrange(1, nv + 1)
                if v in fixed:
                    continue
                if occ is None:
                    occ = {}
                    for cl in clauses:
                        for l in cl:
                            occ.setdefault(abs(l), []).append(cl)
                lit = v if v in cur else -v
                cur.discard(lit)
                cur.add(-lit)
                ok = all(any(l in cur for l in cl) for cl in occ.get(v, ()))
                if not ok:
                    cur.discard(-lit)
                    cur.add(lit)
                else:
                    c.stats.probes.bump('sat:model-flipped')
            model = [v if v in cur else -v for v in range(1, nv + 1)]
        if not check_model(clauses, model) or any(a not in set(model) for a in assumptions):
            raise SimSATError('internal: model does not satisfy the formula')
        pers = c.cfg.get('sat_model_order', 'ascending')
        if pers == 'shuffled':
            rng.shuffle(model)
        elif pers == 'descending':
            model.reverse()
        self._model, self._status = model, True
        c.stats.probes.bump('sat:sat')
        return True

    def get_model(self):
        if self._status:
            return list(self._model)
        return None

    def delete(self):
        self._deleted = True


def selfcheck(n=200, seed=12345):
    """z3 and DPLL must agree on random small CNFs (answers and model validity)."""
    import random

    r = random.Random(seed)
    for i in range(n):
        nv = r.randint(1, 9)
        m = r.randint(1, 30)
        cls = [[r.choice((-1, 1)) * r.randint(1, nv) for _ in range(r.randint(1, 4))] for _ in range(m)]
        a = dpll(cls, nv)
        b = z3_solve(cls, nv, i)
        if (a is None) != (b is None):
            raise SimSATError(f'selfcheck: dpll/z3 disagree on {cls}')
        if a is not None:
            if not check_model(cls, a):
                raise SimSATError('selfcheck: dpll model invalid')
            bm = [v if b.get(v, False) else -v for v in range(1, nv + 1)]
            if not check_model(cls, bm):
                raise SimSATError('selfcheck: z3 model invalid')
    return n


def install():
    """Put fake `pysat`, `pysat.formula`, `pysat.solvers` into sys.modules."""
    if 'pysat' in sys.modules and getattr(sys.modules['pysat'], '__cirbosim__', False):
        return
    pysat = types.ModuleType('pysat')
    pysat.__cirbosim__ = True
    pysat.__path__ = []
    formula = types.ModuleType('pysat.formula')
    formula.CNF = CNF
    formula.IDPool = IDPool
    solvers = types.ModuleType('pysat.solvers')
    solvers.Solver = Solver
    pysat.formula = formula
    pysat.solvers = solvers
    sys.modules['pysat'] = pysat
    sys.modules['pysat.formula'] = formula
    sys.modules['pysat.solvers'] = solvers
