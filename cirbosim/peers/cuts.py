"""SimCuts: `mockturtle_wrapper.enumerate_cuts` as an in-process peer.

Parses the bench text cirbo passes (the same text mockturtle would get) and returns a
family of cuts that satisfies the post-conditions of mockturtle's `cut_enumeration`
as used by the wrapper:
  M1 every node has its unit cut, listed last; primary inputs have only it;
  M2 every other cut of a gate is the union of one retained cut of each fan-in, has
     at most `cut_size` leaves;
  M3 leaves inside a cut are sorted by one global topological index;
  M4 no retained cut of a node is a superset of another retained cut of that node;
  M5 at most `cut_limit` cuts per node including the unit cut;
  M6 a node with more than `fanin_limit` fan-ins has only its unit cut.
Personalities: `faithful` (products first fan-in outermost, a new cut is inserted
before the retained cuts of equal size, dominated cuts dropped, the worst beyond
cut_limit-1 dropped; calibrated against tests/extensions/mockturtle_wrapper/
test_cuts.py) and `adversarial` (any sub-family allowed by M1-M6, any order of cuts
within a node, any order of nodes, any topological index).
"""
from __future__ import annotations

import itertools
import sys
import types

from .. import ctx

MAX_CUT_NUM = 26  # capacity of mockturtle's cut_set


class SimCutsError(Exception):
    pass


def parse_bench(text: str):
    inputs, outputs, gates, order = [], [], {}, []
    for raw in text.split('\n'):
        line = raw.strip()
        if not line or line.startswith('#'):
            continue
        up = line.upper()
        if '=' not in line and up.startswith('INPUT('):
            inputs.append(line[6:].rstrip(')').strip())
        elif '=' not in line and up.startswith('OUTPUT('):
            outputs.append(line[7:].rstrip(')').strip())
        else:
            name, body = line.split('=', 1)
            name = name.strip()
            body = body.strip()
            lb, rb = body.find('('), body.rfind(')')
            if lb < 0 or rb < 0:
                raise SimCutsError(f'cannot parse {line!r}')
            op = body[:lb].strip().upper()
            args = [a.strip() for a in body[lb + 1 : rb].split(',') if a.strip()]
            gates[name] = (op, args)
            order.append(name)
    return inputs, outputs, gates, order


def _creation_order(inputs, gates, order, rng, adversarial):
    """Global node index: PIs in file order, then gates as they become definable."""
    idx = {x: i for i, x in enumerate(inputs)}
    pending = list(order)
    seq = []
    while pending:
        ready = [g for g in pending if all(a in idx for a in gates[g][1])]
        if not ready:
            raise SimCutsError('bench text has a cycle or an undefined operand')
        if adversarial:
            g = ready[rng.randrange(len(ready))]
        else:
            g = ready[0]
        idx[g] = len(idx)
        seq.append(g)
        pending.remove(g)
    return idx, seq


def enumerate_cuts(circuit: str, cut_size: int, cut_limit: int, fanin_limit: int):
    c = ctx.cur
    c.stats.peer_calls.bump('cuts.enumerate')
    c.calls.bump('cuts.enumerate')
    rng = c.rng('cuts', c.calls['cuts.enumerate'])
    pers = c.cfg.get('cuts', 'faithful')
    adversarial = pers == 'adversarial'
    inputs, outputs, gates, order = parse_bench(circuit)
    idx, seq = _creation_order(inputs, gates, order, rng, adversarial)
    cuts: dict[str, list[tuple[int, ...]]] = {}
    name_of = {i: n for n, i in idx.items()}
    for x in inputs:
        cuts[x] = [(idx[x],)]
    for g in seq:
        fanins = gates[g][1]
        unit = (idx[g],)
        if len(fanins) > fanin_limit or not fanins:
            cuts[g] = [unit]
            continue
        rc: list[tuple[int, ...]] = []
        cap = MAX_CUT_NUM
        for combo in itertools.product(*(cuts[f] for f in fanins)):
            s = set()
            for cc in combo:
                s.update(cc)
            if len(s) > cut_size:
                continue
            new = tuple(sorted(s))
            ns = set(new)
            if any(set(o) <= ns for o in rc):  # dominated by a retained cut
                continue
            rc = [o for o in rc if not ns <= set(o)]  # drop cuts the new one dominates
            pos = 0
            while pos < len(rc) and len(rc[pos]) < len(new):
                pos += 1
            if not adversarial and len(rc) >= cap:
                if pos == len(rc):
                    continue
                rc.pop()
            rc.insert(pos, new)
        keep = max(cut_limit - 1, 0)
        if adversarial:
            # any sub-family within M4/M5, in any order
            if rc and rng.random() < 0.7:
                k = rng.randint(0, min(keep, len(rc)))
                rc = rng.sample(rc, k)
            else:
                rng.shuffle(rc)
                rc = rc[:keep]
        else:
            rc = rc[:keep]
        rc.append(unit)  # klut networks go through merge_cuts(): the unit cut is always added
        cuts[g] = rc
    names = list(inputs) + seq
    if adversarial:
        rng.shuffle(names)
    else:
        names.sort()  # std::map over labels
    out = {n: [[name_of[i] for i in cut] for cut in cuts[n]] for n in names}
    c.stats.probes.bump(f'cuts:{pers}')
    c.cuts_count = len({tuple(cut) for cs in out.values() for cut in cs})
    return out


def check_family(text, family, cut_size, cut_limit, fanin_limit) -> list[str]:
    """M1-M6 as an executable predicate (used by the peer's own self test)."""
    inputs, outputs, gates, order = parse_bench(text)
    bad = []
    for n, cs in family.items():
        if not cs or cs[-1] != [n]:
            bad.append(f'M1 {n}')
        if n in inputs and cs != [[n]]:
            bad.append(f'M1 pi {n}')
        if len(cs) > max(cut_limit, 1):
            bad.append(f'M5 {n}')
        sets = [frozenset(x) for x in cs]
        for i, a in enumerate(sets):
            for j, b in enumerate(sets):
                if i != j and a <= b and cs[i] != [n] and cs[j] != [n]:
                    bad.append(f'M4 {n}')
        if n in gates:
            fan = gates[n][1]
            for cut in cs[:-1]:
                if len(cut) > cut_size:
                    bad.append(f'M2 size {n}')
                ok = False
                for combo in itertools.product(*(family[f] for f in fan)):
                    s = set()
                    for cc in combo:
                        s.update(cc)
                    if s == set(cut):
                        ok = True
                        break
                if not ok:
                    bad.append(f'M2 union {n} {cut}')
    return bad


_TEST_TEXT = (
    'INPUT(A)\nINPUT(B)\nINPUT(C)\n\nD = NOT(A)\nE = AND(B, D)\nF = OR(A, C)\nG = XOR(E, F)\n\nOUTPUT(G)'
)
_TEST_EXPECT = {
    'A': [['A']],
    'B': [['B']],
    'C': [['C']],
    'D': [['A'], ['D']],
    'E': [['B', 'D'], ['A', 'B'], ['E']],
    'F': [['A', 'C'], ['F']],
    'G': [['E', 'F'], ['A', 'C', 'E'], ['A', 'B', 'F'], ['A', 'B', 'C'], ['B', 'D', 'F'], ['G']],
}


def selfcheck():
    """The faithful personality must reproduce the expectation of test_cuts.py."""
    saved = ctx.cur.cfg.get('cuts')
    ctx.cur.cfg['cuts'] = 'faithful'
    try:
        got = enumerate_cuts(_TEST_TEXT, 5, 50, 10000)
    finally:
        if saved is None:
            ctx.cur.cfg.pop('cuts', None)
        else:
            ctx.cur.cfg['cuts'] = saved
    if got != _TEST_EXPECT:
        raise SimCutsError(f'faithful personality deviates from test_cuts.py: {got}')
    return True


def install():
    if 'mockturtle_wrapper' in sys.modules and getattr(sys.modules['mockturtle_wrapper'], '__cirbosim__', False):
        return
    m = types.ModuleType('mockturtle_wrapper')
    m.__cirbosim__ = True
    m.enumerate_cuts = enumerate_cuts
    sys.modules['mockturtle_wrapper'] = m
