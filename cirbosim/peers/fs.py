"""SimFS / SimStream: storage as a peer.

SimFS is an in-memory tree offering the slice of `pathlib.Path` (and `lzma.open`) that
cirbo uses: exists, parent, mkdir(parents, exist_ok), write_text, open('r'/'rb'),
suffix.  Faults are explicit entries of the current op: a concurrent actor creating
the parent directory between cirbo's `exists()` and `mkdir()`.

SimStream is a raw byte stream with a chunking policy (legal for raw streams: `read(n)`
may return fewer than n bytes) and a write log, used for the short-read fault and for
crash points (a torn write is a proper prefix of what was written).
"""
from __future__ import annotations

import io
import lzma as _real_lzma
import types

from .. import ctx


class SimFSState:
    def __init__(self):
        self.files: dict[str, bytes] = {}
        self.dirs: set[str] = {'/'}
        self.links: dict[str, str] = {}  # symbolic links to directories: link path -> (resolved) target

    def reset(self):
        self.files.clear()
        self.dirs = {'/'}
        self.links = {}


FS = SimFSState()


def _norm(p: str) -> str:
    parts = [x for x in str(p).split('/') if x not in ('', '.')]
    return '/' + '/'.join(parts)


def _resolve(p: str) -> str:
    """What the operating system does with a spelling: components left to right, a symbolic link is followed
    when it is met, and `..` is the parent of the directory *reached so far* (not of the spelling)."""
    cur = '/'
    for comp in _norm(p).split('/'):
        if not comp:
            continue
        if comp == '..':
            cur = cur.rsplit('/', 1)[0] or '/'
        else:
            cur = (cur if cur != '/' else '') + '/' + comp
            hops = 0
            while cur in FS.links and hops < 8:
                cur = FS.links[cur]
                hops += 1
    return cur


class SimPath:
    """Keeps the spelling it was given (like pathlib: only '.' and empty components vanish, `parent` is lexical);
    every file-system operation acts on what the spelling resolves to."""

    def __init__(self, *parts):
        self._p = _norm('/'.join(str(x) for x in parts))

    @property
    def _r(self):
        return _resolve(self._p)

    def __str__(self):
        return self._p

    def __fspath__(self):
        return self._p

    def __repr__(self):
        return f'SimPath({self._p!r})'

    def __eq__(self, o):
        return isinstance(o, SimPath) and o._p == self._p

    def __hash__(self):
        return hash(self._p)

    def __truediv__(self, o):
        return SimPath(self._p, o)

    @property
    def parent(self):
        if self._p == '/':
            return self
        return SimPath(self._p.rsplit('/', 1)[0] or '/')

    @property
    def name(self):
        return self._p.rsplit('/', 1)[1]

    @property
    def suffix(self):
        n = self.name
        return n[n.rfind('.'):] if '.' in n[1:] else ''

    def exists(self):
        c = ctx.cur
        c.stats.peer_calls.bump('fs.exists')
        ans = self._r in FS.dirs or self._r in FS.files
        f = c.fault_at('fs.exists')
        if f is not None and f['kind'] == 'mkdir-race' and not ans:
            # a concurrent actor creates the directory right after we answered "no"
            p = self._r
            while p and p != '/':
                FS.dirs.add(p)
                p = p.rsplit('/', 1)[0] or '/'
        return ans

    def is_dir(self):
        return self._r in FS.dirs

    def mkdir(self, mode=0o777, parents=False, exist_ok=False):
        ctx.cur.stats.peer_calls.bump('fs.mkdir')
        r = self._r
        if r in FS.dirs or r in FS.files:
            if exist_ok and r in FS.dirs:
                return
            raise FileExistsError(17, 'File exists', self._p)
        par = self.parent
        if par._r not in FS.dirs:
            if not parents:
                raise FileNotFoundError(2, 'No such file or directory', self._p)
            par.mkdir(parents=True, exist_ok=True)
        FS.dirs.add(r)

    def write_text(self, data, encoding=None, errors=None, newline=None):
        ctx.cur.stats.peer_calls.bump('fs.write_text')
        if self.parent._r not in FS.dirs:
            raise FileNotFoundError(2, 'No such file or directory', self._p)
        if self._r in FS.dirs:
            raise IsADirectoryError(21, 'Is a directory', self._p)
        FS.files[self._r] = data.encode(encoding or 'utf-8')
        return len(data)

    def write_bytes(self, data):
        if self.parent._r not in FS.dirs:
            raise FileNotFoundError(2, 'No such file or directory', self._p)
        FS.files[self._r] = bytes(data)
        return len(data)

    def read_bytes(self):
        return FS.files[self._r]

    def open(self, mode='r', buffering=-1, encoding=None, errors=None, newline=None):
        ctx.cur.stats.peer_calls.bump('fs.open')
        if 'w' in mode or 'a' in mode or '+' in mode:
            raise io.UnsupportedOperation('SimFS: only reading through open()')
        if self._r not in FS.files:
            raise FileNotFoundError(2, 'No such file or directory', self._p)
        data = FS.files[self._r]
        if 'b' in mode:
            return io.BytesIO(data)
        # a real text layer over the bytes: decoding happens chunk by chunk while the caller iterates, so an undecodable
        # byte deep in the file surfaces in the middle of the caller's loop, as it does on a real file
        return io.TextIOWrapper(io.BytesIO(data), encoding=encoding or 'utf-8', errors=errors, newline=newline)


def pathlib_module():
    m = types.ModuleType('pathlib')
    m.__cirbosim__ = True
    m.Path = SimPath
    m.PurePath = SimPath
    return m


class _SimLzma:
    """`lzma` as seen by cirbo.circuits_db.db: opens SimFS files, decompressing with the
    real algorithm."""

    LZMAError = _real_lzma.LZMAError

    @staticmethod
    def open(filename, mode='rb', **kw):
        ctx.cur.stats.peer_calls.bump('fs.lzma-open')
        p = _resolve(str(filename))
        if p not in FS.files:
            raise FileNotFoundError(2, 'No such file or directory', p)
        return _real_lzma.open(io.BytesIO(FS.files[p]), mode)

    compress = staticmethod(_real_lzma.compress)
    decompress = staticmethod(_real_lzma.decompress)


class SimStream(io.RawIOBase):
    """Raw readable/writable byte stream with a seeded chunking policy."""

    def __init__(self, data=b'', policy='full', rng=None):
        super().__init__()
        self._data = bytes(data)
        self._pos = 0
        self._policy = policy
        self._rng = rng
        self._flip = False
        self.written = bytearray()
        self.short_reads = 0

    def readable(self):
        return True

    def writable(self):
        return True

    def read(self, n=-1):
        if n is None or n < 0:
            n = len(self._data) - self._pos
        avail = len(self._data) - self._pos
        want = min(n, avail)
        if want > 1 and self._policy != 'full':
            if self._policy == 'one':
                k = 1
            elif self._policy == 'alternate':
                self._flip = not self._flip
                k = want if self._flip else max(1, want // 2)
            else:
                k = self._rng.randint(1, want)
            if k < want:
                self.short_reads += 1
            want = k
        out = self._data[self._pos:self._pos + want]
        self._pos += want
        return out

    def write(self, b):
        self.written += bytes(b)
        return len(b)
