"""Static per-property budgets (no cirbo import needed to read them).

`runs` is fixed per tier so that the explored set is a function of VERIF_SEED only;
`batch` consecutive run indices share one fresh interpreter and one PYTHONHASHSEED;
`wall` is a guard in seconds (overrun => harness error, exit 2, never a verdict).
"""

TIERS = {
    'C02': {'quick': dict(runs=32000, batch=250, wall=600), 'thorough': dict(runs=640000, batch=1000, wall=5400)},
    'C04': {'quick': dict(runs=24000, batch=150, wall=600), 'thorough': dict(runs=480000, batch=600, wall=5400)},
    'C05': {'quick': dict(runs=16000, batch=125, wall=600), 'thorough': dict(runs=320000, batch=500, wall=5400)},
    'C06': {'quick': dict(runs=7200, batch=60, wall=600), 'thorough': dict(runs=144000, batch=240, wall=5400)},
    'C07': {'quick': dict(runs=12000, batch=100, wall=600), 'thorough': dict(runs=240000, batch=400, wall=5400)},
    'C08': {'quick': dict(runs=6400, batch=50, wall=600), 'thorough': dict(runs=128000, batch=200, wall=5400)},
    'C09': {'quick': dict(runs=12000, batch=100, wall=600), 'thorough': dict(runs=240000, batch=400, wall=5400)},
    'C10': {'quick': dict(runs=24000, batch=200, wall=600), 'thorough': dict(runs=480000, batch=800, wall=5400)},
    'C11': {'quick': dict(runs=24000, batch=200, wall=600), 'thorough': dict(runs=480000, batch=800, wall=5400)},
    'C13': {'quick': dict(runs=8000, batch=100, wall=600), 'thorough': dict(runs=160000, batch=400, wall=5400)},
    'C14': {'quick': dict(runs=24000, batch=200, wall=600), 'thorough': dict(runs=480000, batch=800, wall=5400)},
    'C16': {'quick': dict(runs=16000, batch=125, wall=600), 'thorough': dict(runs=320000, batch=500, wall=5400)},
    'C19': {'quick': dict(runs=24000, batch=200, wall=600), 'thorough': dict(runs=480000, batch=800, wall=5400)},
    'C20': {'quick': dict(runs=32000, batch=250, wall=600), 'thorough': dict(runs=640000, batch=1000, wall=5400)},
}

LEVEL = {p: 'exploration' for p in TIERS}

ENGINE_NAME = {
    'C02': 'HIST', 'C10': 'HIST', 'C19': 'HIST', 'C14': 'HIST', 'C07': 'HIST', 'C08': 'HIST', 'C09': 'HIST',
    'C05': 'SAT', 'C13': 'SAT', 'C06': 'SYN', 'C04': 'MIN', 'C11': 'IO', 'C16': 'IO', 'C20': 'TRAV',
}
