"""Static per-property budgets (no cirbo import needed to read them).

`runs` is fixed per tier so that the explored set is a function of VERIF_SEED only;
`batch` consecutive run indices share one fresh interpreter and one PYTHONHASHSEED;
`wall` is a guard in seconds (overrun => harness error, exit 2, never a verdict).
"""

TIERS = {
    'C02': {'quick': dict(runs=8000, batch=125, wall=420), 'thorough': dict(runs=160000, batch=500, wall=3000)},
    'C10': {'quick': dict(runs=6000, batch=125, wall=420), 'thorough': dict(runs=120000, batch=500, wall=3000)},
    'C19': {'quick': dict(runs=6000, batch=125, wall=420), 'thorough': dict(runs=120000, batch=500, wall=3000)},
    'C14': {'quick': dict(runs=6000, batch=125, wall=420), 'thorough': dict(runs=120000, batch=500, wall=3000)},
    'C07': {'quick': dict(runs=3000, batch=60, wall=420), 'thorough': dict(runs=60000, batch=250, wall=3000)},
    'C08': {'quick': dict(runs=1600, batch=40, wall=420), 'thorough': dict(runs=24000, batch=100, wall=3000)},
    'C09': {'quick': dict(runs=3000, batch=60, wall=420), 'thorough': dict(runs=60000, batch=250, wall=3000)},
    'C05': {'quick': dict(runs=4000, batch=100, wall=420), 'thorough': dict(runs=80000, batch=400, wall=3000)},
    'C13': {'quick': dict(runs=3000, batch=75, wall=420), 'thorough': dict(runs=60000, batch=300, wall=3000)},
    'C06': {'quick': dict(runs=2400, batch=50, wall=480), 'thorough': dict(runs=48000, batch=200, wall=3600)},
    'C04': {'quick': dict(runs=2400, batch=50, wall=480), 'thorough': dict(runs=48000, batch=200, wall=3600)},
    'C11': {'quick': dict(runs=6000, batch=125, wall=420), 'thorough': dict(runs=120000, batch=500, wall=3000)},
    'C16': {'quick': dict(runs=4000, batch=100, wall=420), 'thorough': dict(runs=80000, batch=400, wall=3000)},
    'C20': {'quick': dict(runs=8000, batch=125, wall=420), 'thorough': dict(runs=160000, batch=500, wall=3000)},
}

LEVEL = {p: 'exploration' for p in TIERS}

ENGINE_NAME = {
    'C02': 'HIST', 'C10': 'HIST', 'C19': 'HIST', 'C14': 'HIST', 'C07': 'HIST', 'C08': 'HIST', 'C09': 'HIST',
    'C05': 'SAT', 'C13': 'SAT', 'C06': 'SYN', 'C04': 'MIN', 'C11': 'IO', 'C16': 'IO', 'C20': 'TRAV',
}
