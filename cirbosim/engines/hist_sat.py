"""Op family SAT (C05, C13): the SAT solver as a peer, on circuits that live in the
HIST population.

C05: the Tseytin CNF of a circuit is decided *by the harness* (bit-parallel unit
propagation over all 2^n input assignments, DPLL/z3 fallback) and compared with the
model's evaluation; `is_circuit_satisfiable` is driven against the SimSAT peer, whose
model choice and model format are seeded.
C13: `build_miter` on pairs of population members.
"""
from __future__ import annotations

import random

from .. import gennet, observe
from ..peers import sat as simsat
from ..refnet import ModelError, Net, apply_gate, var_lanes
from ..util import weighted_choice
from .base import exc_name, innermost_cirbo_frame
from .hist import MAX_INPUTS_TT, Hist

SOLVER_ENUM_NAMES = ('CADICAL103', 'CADICAL153', 'CADICAL195', 'CRYPTOSAT', 'GLUECARD3', 'GLUECARD4', 'GLUCOSE3',
                     'GLUCOSE4', 'GLUCOSE42', 'LINGELING', 'MAPLECHRONO', 'MAPLECM', 'MAPLESAT', 'MERGESAT3', 'MINICARD',
                     'MINISAT22', 'MINISATGH')


def lax_lanes(net: Net, assign, mask, only=None):
    """Model evaluation that folds n-ary gates over *any* positive operand count (a
    one-operand OR is the operand itself).  Used where cirbo itself builds such gates."""
    val = dict(assign)
    order = net.topo() if only is None else net._topo_cut(only, val)
    for g in order:
        if g in val:
            continue
        t, ops = net.gates[g]
        if t == 'INPUT':
            raise ModelError(f'input {g} unassigned')
        val[g] = apply_gate(t, [val[o] for o in ops], mask)
    return val


def bp_propagate(clauses, nvars, fixed_true, fixed_false, mask):
    """Bit-parallel unit propagation over lanes.  fixed_true/false: var -> lane mask.
    Returns (true, false, conflict) lane masks per variable / overall."""
    T = [0] * (nvars + 1)
    F = [0] * (nvars + 1)
    for v, m in fixed_true.items():
        T[v] |= m
    for v, m in fixed_false.items():
        F[v] |= m
    conflict = 0
    changed = True
    rounds = 0
    while changed and rounds < 4 * nvars + 8:
        changed = False
        rounds += 1
        for c in clauses:
            # lanes where literal i is false
            falses = []
            anytrue = 0
            for l in c:
                v = abs(l)
                if l > 0:
                    falses.append(F[v])
                    anytrue |= T[v]
                else:
                    falses.append(T[v])
                    anytrue |= F[v]
            allfalse = mask
            for f in falses:
                allfalse &= f
            if allfalse & ~conflict:
                conflict |= allfalse
                changed = True
            k = len(c)
            for i, l in enumerate(c):
                others = mask
                for j in range(k):
                    if j != i:
                        others &= falses[j]
                force = others & ~falses[i] & ~anytrue & ~conflict
                if not force:
                    continue
                v = abs(l)
                if l > 0:
                    if force & ~T[v]:
                        T[v] |= force
                        changed = True
                else:
                    if force & ~F[v]:
                        F[v] |= force
                        changed = True
    for v in range(1, nvars + 1):
        conflict |= T[v] & F[v]
    return T, F, conflict


class HistSat(Hist):
    # ------------------------------------------------------------------ C05
    def _cnf_facts(self, clauses, n_inputs, nvars, L, mask):
        """For every lane (total input assignment): is CNF + units satisfiable, and the
        value of every variable in the satisfying extension."""
        ft, ff = {}, {}
        for i in range(n_inputs):
            v = var_lanes(i, n_inputs)
            ft[i + 1] = v
            ff[i + 1] = mask & ~v
        T, F, conflict = bp_propagate(clauses, nvars, ft, ff, mask)
        undecided = 0
        for v in range(1, nvars + 1):
            undecided |= mask & ~(T[v] | F[v])
        undecided &= ~conflict
        sat = mask & ~conflict & ~undecided
        # lanes fully assigned without conflict: every clause must hold (propagation reached a fixpoint)
        multi = 0
        if undecided:
            self.res.stats.probes.bump('tseytin:lanes-needing-search')
            j = 0
            u = undecided
            while u:
                if u & 1:
                    assume = [(i + 1) if (var_lanes(i, n_inputs) >> j) & 1 else -(i + 1) for i in range(n_inputs)]
                    m = simsat.decide(clauses, nvars, seed=j, assume=assume)
                    if m is not None:
                        sat |= 1 << j
                        for lit in m:
                            if lit > 0:
                                T[lit] |= 1 << j
                            else:
                                F[-lit] |= 1 << j
                        multi |= 1 << j
                u >>= 1
                j += 1
        return sat, T, F, multi

    def op_tseytin(self, op, rng):
        s = self.pick(rng, lambda s: len(s.net.inputs) <= 8 and s.net.is_acyclic())
        if s is None:
            return
        net = self.reread(s)
        n = len(net.inputs)
        k = len(net.outputs)
        mode = weighted_choice(rng, [('none', 3), ('subset', 3), ('repeat', 1), ('empty', 1), ('single', 3), ('from_circuit', 2)])
        if mode == 'none' or k == 0:
            sel = None
        elif mode == 'subset':
            sel = sorted(rng.sample(range(k), rng.randint(0, k)))
        elif mode == 'repeat':
            sel = [rng.randrange(k) for _ in range(rng.randint(1, 4))]
        elif mode == 'empty':
            sel = []
        elif mode == 'single':
            sel = [rng.randrange(k)]
        else:
            sel = None
        T = self.m['tseytin']
        Cnf = self.m['sat'].Cnf
        if mode == 'from_circuit':
            fn = lambda: Cnf.from_circuit(s.real)
            desc = f'Cnf.from_circuit(#{s.sid})'
        else:
            fn = lambda: T.tseytin_transformation(s.real, sel) if sel is not None else T.tseytin_transformation(s.real)
            desc = f'tseytin_transformation(#{s.sid}, outputs={sel})'
        cnf = self.call(fn, [s], True, desc, family='C05')
        clauses = [list(c) for c in cnf.get_raw()]
        chosen = list(range(k)) if sel is None else sel
        out_labels = [net.outputs[i] for i in chosen]
        self.judge_cnf(net, clauses, out_labels, 'tseytin')
        # the caller queries the Cnf object, adds the unit clauses of one input assignment, and queries the same object
        # again: "together with any total input assignment ... satisfiable exactly when all selected outputs are True"
        if rng.random() < 0.35:
            try:
                S = self.m['sat']
                assign, _ = net.std_assign()
                val = net.lanes(assign, (1 << (1 << n)) - 1)
                want = (1 << (1 << n)) - 1
                for o in out_labels:
                    want &= val[o]
                r1 = S.is_satisfiable(cnf)
                if bool(r1.answer) != bool(want):
                    self.violate('C05', 'cnf-query', 'answer', f'is_satisfiable(cnf) = {r1.answer}; {bin(want).count("1")} assignments make the selected outputs True')
                else:
                    zeros = [j for j in range(1 << n) if not (want >> j) & 1]
                    j = rng.choice(zeros) if zeros and rng.random() < 0.7 else rng.randrange(1 << n)
                    for i in range(n):
                        cnf.add_clause([(i + 1) if (j >> (n - 1 - i)) & 1 else -(i + 1)])
                    r2 = S.is_satisfiable(cnf)
                    if bool(r2.answer) != bool((want >> j) & 1):
                        self.violate('C05', 'cnf-query', 'answer:after-adding-an-input-assignment',
                                     f'after adding the unit clauses of input assignment #{j} to the same Cnf object the query answers {r2.answer}; '
                                     f'the selected outputs are {"all True" if (want >> j) & 1 else "not all True"} there')
                    else:
                        self.res.stats.probes.bump('tseytin:cnf-object-queried-again-after-adding-an-assignment')
            except ModelError:
                pass
            except Exception as e:  # noqa
                self.violate('C05', 'cnf-query', f'raised:{exc_name(e)}', f'{exc_name(e)}: {e}')
        # the caller owns the returned Cnf and goes on using it (e.g. blocking clauses of an all-SAT loop)
        try:
            cnf.add_clause([1])
            cnf.add_clause([-1])
            self.res.stats.probes.bump('tseytin:returned-cnf-edited-by-caller')
        except Exception:
            pass
        self.settle([s], with_copy=False)

    def judge_cnf(self, net: Net, clauses, out_labels, what):
        n = len(net.inputs)
        L = 1 << n
        mask = (1 << L) - 1
        nvars = max([n] + [abs(l) for c in clauses for l in c])
        if any(len(c) == 0 for c in clauses):
            self.violate('C05', 'cnf', 'empty-clause', 'the generated CNF contains an empty clause')
            return
        assign, _ = net.std_assign()
        try:
            val = net.lanes(assign, mask)
        except ModelError:
            return
        want = mask
        for o in out_labels:
            want &= val[o]
        sat, T, F, multi = self._cnf_facts(clauses, n, nvars, L, mask)
        if sat != want:
            diff = sat ^ want
            j = (diff & -diff).bit_length() - 1
            # which gate types / arities are in the cone: discriminator for the finding
            cone = net.reach(out_labels, inverse=False)
            kinds = sorted({f'{net.gates[g][0]}/{len(net.gates[g][1])}' for g in cone if net.gates[g][0] != 'INPUT'})
            culprit = self._cnf_culprit(net, clauses, out_labels, val, mask, n, L)
            self.violate('C05', 'cnf-vs-evaluation', culprit or 'unknown',
                         f'input assignment #{j}: CNF+units is {"SAT" if (sat >> j) & 1 else "UNSAT"} but the selected outputs '
                         f'evaluate to {"all True" if (want >> j) & 1 else "not all True"} (cone gate kinds {kinds})')
            return
        self.res.stats.probes.bump(f'{what}:cnf-decided-for-all-assignments')
        if multi:
            self.res.stats.probes.bump(f'{what}:extension-found-by-search')
        # (ii) every encoded gate has a variable carrying its evaluated value on satisfying lanes
        if sat:
            cone = net.reach(out_labels, inverse=False)
            for g in sorted(cone):
                if net.gates[g][0] == 'INPUT':
                    continue
                gv = val[g] & sat
                ok = False
                for v in range(n + 1, nvars + 1):
                    if (T[v] & sat) == gv and (F[v] & sat) == (sat & ~gv):
                        ok = True
                        break
                if not ok:
                    self.violate('C05', 'gate-value', f'{net.gates[g][0]}/{len(net.gates[g][1])}',
                                 f'no CNF variable carries the evaluated value of gate {g} in the satisfying extensions')
                    return
            self.res.stats.probes.bump(f'{what}:gate-values-checked')
        else:
            self.res.stats.probes.bump(f'{what}:unsat-for-every-assignment')

    def _cnf_culprit(self, net, clauses, out_labels, val, mask, n, L):
        """Re-encode each gate of the cone alone (a one-gate circuit through the real
        code) to find which gate kind is mis-encoded.  Best effort, used only as the
        discriminator of the signature."""
        T = self.m['tseytin']
        cone = net.reach(out_labels, inverse=False)
        for g in sorted(cone):
            t, ops = net.gates[g]
            if t == 'INPUT' or not ops:
                continue
            k = len(ops)
            sub = Net({f'i{i}': ('INPUT', ()) for i in range(k)}, [f'i{i}' for i in range(k)], ['g'])
            sub.gates['g'] = (t, tuple(f'i{i}' for i in range(k)))
            try:
                real = observe.build_real(self.Circuit, self.GT, sub)
                cl = [list(c) for c in T.tseytin_transformation(real).get_raw()]
                LL = 1 << k
                mm = (1 << LL) - 1
                nv = max([k] + [abs(l) for c in cl for l in c])
                sat, _, _, _ = self._cnf_facts(cl, k, nv, LL, mm)
                a, _ = sub.std_assign()
                if sat != sub.lanes(a, mm)['g']:
                    return f'{t}/arity{k}'
            except Exception:
                continue
        return None

    def op_circuit_sat(self, op, rng):
        s = self.pick(rng, lambda s: len(s.net.inputs) <= 8 and s.net.is_acyclic())
        if s is None:
            return
        net = self.reread(s)
        n = len(net.inputs)
        S = self.m['sat']
        name = rng.choice(SOLVER_ENUM_NAMES)
        how = rng.choice(('enum', 'value', 'default'))
        pers = rng.choice(('ascending', 'ascending', 'shuffled', 'descending'))
        ctxcfg = dict(self.cfg)
        ctxcfg['sat_model_order'] = pers
        from .. import ctx as _ctx

        _ctx.cur.cfg = ctxcfg
        kw = {}
        if how == 'enum':
            kw['solver_name'] = getattr(S.PySATSolverNames, name)
        elif how == 'value':
            kw['solver_name'] = getattr(S.PySATSolverNames, name).value
        mask = (1 << (1 << n)) - 1
        assign, _ = net.std_assign()
        try:
            val = net.lanes(assign, mask)
        except ModelError:
            return
        want = mask
        for o in net.outputs:
            want &= val[o]
        if any(f.get('kind') == 'backend-error' for f in op.get('f', ())):
            # the solver back end fails during this query.  No answer (the exception reaches the caller) is fine; an
            # answer that is given all the same has to be the right one.  Then the fault is over and the query is repeated.
            try:
                res0 = S.is_circuit_satisfiable(s.real, **kw)
            except Exception as e:  # noqa
                res0 = None
                self.res.stats.probes.bump(f'sat:backend-error-reached-the-caller:{exc_name(e)}')
            if res0 is not None and bool(res0.answer) != bool(want):
                self.violate('C05', 'circuit-sat', 'answer:after-backend-error',
                             f'the solver failed during the query, yet the answer {res0.answer} was given; {bin(want).count("1")} assignments make all outputs True')
        res = self.call(lambda: S.is_circuit_satisfiable(s.real, **kw), [s], True,
                        f'is_circuit_satisfiable(#{s.sid}, solver={name if how != "default" else "default"}, model_order={pers})', family='C05')
        if bool(res.answer) != bool(want):
            self.violate('C05', 'circuit-sat', 'answer', f'answer {res.answer} but {bin(want).count("1")} assignments make all outputs True')
        elif res.answer:
            model = res.model
            if model is None:
                self.violate('C05', 'circuit-sat', 'model-missing', 'answer True without a model')
            else:
                clauses = self.m['sat'].Cnf.from_circuit(s.real).get_raw()
                ms = set(model)
                if not all(any(l in ms for l in c) for c in clauses):
                    self.violate('C05', 'circuit-sat', 'model-not-a-model', 'the returned model does not satisfy Cnf.from_circuit(circuit)')
                else:
                    j = 0
                    for i in range(n):
                        if (i + 1) in ms:
                            j |= 1 << (n - 1 - i)
                        elif -(i + 1) not in ms:
                            # input variable absent from the model (input not encoded): any value will do; take False
                            pass
                    free = [i for i in range(n) if (i + 1) not in ms and -(i + 1) not in ms]
                    ok = False
                    for bits in range(1 << len(free)):
                        jj = j
                        for b, i in enumerate(free):
                            if (bits >> b) & 1:
                                jj |= 1 << (n - 1 - i)
                        if (want >> jj) & 1:
                            ok = True
                            break
                    if not ok:
                        self.violate('C05', 'circuit-sat', 'projection', 'the model\'s projection onto the inputs does not make all outputs True')
                    else:
                        self.res.stats.probes.bump('circuit-sat:model-checked')
        else:
            self.res.stats.probes.bump('circuit-sat:unsat-confirmed')
        self.settle([s], with_copy=False)

    # ------------------------------------------------------------------ C13
    def op_miter(self, op, rng):
        left = self.pick(rng, lambda s: len(s.net.inputs) <= 7 and s.net.is_acyclic() and len(s.net.gates) <= 30)
        if left is None:
            return
        ln = left.net
        left_real = left.real
        if rng.random() < 0.12 and ln.gates:
            # many outputs (the wide OR at the end of the miter): a private copy of the left circuit with 9..20 outputs
            labels = list(ln.gates)
            ln = ln.copy()
            ln.blocks = {}
            ln.outputs = [rng.choice(labels) for _ in range(rng.randint(9, 28))]
            try:
                left_real = observe.build_real(self.Circuit, self.GT, ln)
            except Exception:
                return
            self.res.stats.probes.bump('miter:more-than-eight-outputs')
        n, k = len(ln.inputs), len(ln.outputs)
        flavour = weighted_choice(rng, [('random', 4), ('rewrite', 3), ('same', 1), ('member', 3), ('mismatch', 2), ('one-gate-off', 3),
                                        ('permuted-labels', 3), ('one-output-negated', 3 if k > 8 else 1)])
        right_slot = None
        if left_real is not left.real and flavour in ('member', 'same'):
            flavour = 'one-gate-off'
        if flavour == 'member':
            cands = [s for s in self.pop if s is not left and len(s.net.inputs) == n and len(s.net.outputs) == k and s.net.is_acyclic()]
            if cands:
                right_slot = rng.choice(cands)
            else:
                flavour = 'random'
        if flavour == 'same':
            right_slot = left
        if right_slot is not None:
            right_real, rn = right_slot.real, right_slot.net
        else:
            if flavour == 'mismatch':
                rn = gennet.random_net(rng, n + rng.choice((0, 1)), rng.randint(0, 6), self.types(), self.cfg['max_arity'],
                                       rng.choice(('plain', 'digits')), n_outputs=k + 1)
                if len(rn.inputs) == n and len(rn.outputs) == k:
                    if not rn.gates:
                        return
                    rn.outputs.append(rn.outputs[0] if rn.outputs else next(iter(rn.gates)))
            elif flavour == 'permuted-labels':
                # same input label set as the left circuit, in a different order: inputs correspond by position
                rn = (ln.copy() if rng.random() < 0.5 else
                      gennet.random_net(rng, n, rng.randint(1, 8), self.types(), self.cfg['max_arity'], 'plain', n_outputs=k, prefix='zz'))
                rn.blocks = {}
                if len(rn.outputs) != k or len(rn.inputs) != n:
                    return
                if rn.inputs != ln.inputs:
                    ren = dict(zip(rn.inputs, ln.inputs))
                    if any(v in rn.gates and v not in ren for v in ren.values()):
                        return
                    rn = Net({ren.get(g, g): (t, tuple(ren.get(o, o) for o in ops)) for g, (t, ops) in rn.gates.items()},
                             [ren[x] for x in rn.inputs], [ren.get(o, o) for o in rn.outputs])
                perm = list(rn.inputs)
                rng.shuffle(perm)
                rn.inputs = perm
                self.res.stats.probes.bump('miter:same-input-labels-in-different-order')
            elif flavour == 'one-output-negated':
                # the two circuits differ at exactly one output position (first, second and last are favoured)
                rn = ln.copy()
                rn.blocks = {}
                if not rn.outputs or '__neg_out__' in rn.gates:
                    return
                idx = rng.choice((0, min(1, k - 1), k - 1, rng.randrange(k)))
                rn.gates['__neg_out__'] = ('NOT', (rn.outputs[idx],))
                rn.outputs[idx] = '__neg_out__'
                self.res.stats.probes.bump('miter:operands-differ-at-one-output-position')
            elif flavour in ('rewrite', 'one-gate-off'):
                rn = ln.copy()
                rn.blocks = {}
                taken = set(rn.gates)
                for _ in range(rng.randint(1, 4)):
                    self.rewrite(rng, rn, taken, keep=set())
                if flavour == 'one-gate-off':
                    # (OR -> XOR and NOR -> NXOR only for gates of at most 10 operands: the clause set of an n-ary parity
                    # gate has 2^n clauses, and the `big_or` of a miter used as an operand can have 28 operands)
                    cands = [g for g in rn.gates if rn.gates[g][0] in ('AND', 'OR', 'XOR', 'NAND', 'NOR', 'NXOR')
                             and (len(rn.gates[g][1]) <= 10 or rn.gates[g][0] not in ('OR', 'NOR'))]
                    if cands:
                        g = rng.choice(cands)
                        t, ops = rn.gates[g]
                        rn.gates[g] = ({'AND': 'NAND', 'OR': 'XOR', 'XOR': 'OR', 'NAND': 'AND', 'NOR': 'NXOR', 'NXOR': 'NOR'}[t], ops)
            else:
                rn = gennet.random_net(rng, n, rng.randint(0, 8), self.types(), self.cfg['max_arity'],
                                       rng.choice(('plain', 'digits')), n_outputs=k)
                if len(rn.outputs) != k:
                    return
            try:
                right_real = observe.build_real(self.Circuit, self.GT, rn)
            except Exception:
                return
            rn, _ = observe.snap(right_real)
        same_shape = len(rn.inputs) == n and len(rn.outputs) == k
        if same_shape and k == 0:
            return  # the statement speaks about output counts >= 1
        S = self.m['sat']
        kw = {}
        if rng.random() < 0.3:
            kw = {'left_name': f'L{self.opi}', 'right_name': f'R{self.opi}'}
        desc = f'build_miter(#{left.sid}, {"#%d" % right_slot.sid if right_slot else flavour}, {kw})'
        self.ev['call'] = desc
        try:
            miter = S.build_miter(left_real, right_real, **kw)
        except Exception as e:  # noqa
            nm = exc_name(e)
            if not same_shape:
                self.ev['out'] = f'rejected:{nm}'
                if nm != 'MiterDifferentShapesError':
                    self.violate('C13', 'shape-rejection', f'{nm}', f'mismatched shapes raised {nm} instead of MiterDifferentShapesError')
                else:
                    self.res.stats.probes.bump('miter:mismatched-shapes-rejected')
            else:
                where = innermost_cirbo_frame(e)
                self.ev['out'] = f'unexpected:{nm}@{where}'
                self.violate('C13', 'valid-call-raised', f'{nm}@{where}', f'{desc}: {nm}: {e}')
            self._miter_operands_unchanged(left, right_slot, right_real, rn)
            return
        self.ev['out'] = 'ok'
        if not same_shape:
            self.violate('C13', 'shape-rejection', 'accepted', 'mismatched shapes were accepted')
            return
        self._miter_operands_unchanged(left, right_slot, right_real, rn)
        mnet, _ = observe.snap(miter)
        st = self.res.stats.probes
        if len(mnet.inputs) != n:
            self.violate('C13', 'interface', 'input-count', f'{len(mnet.inputs)} inputs, operands have {n}')
            return
        # (how the miter names its inputs is not promised; "in the left circuit's order" is judged positionally by the
        # value oracle below: the i-th miter input is the i-th input of both operands)
        if len(mnet.outputs) != 1:
            self.violate('C13', 'interface', 'output-count', f'{len(mnet.outputs)} outputs')
            return
        L = 1 << n
        mask = (1 << L) - 1
        try:
            la, _ = ln.std_assign()
            ra = {x: var_lanes(i, n) for i, x in enumerate(rn.inputs)}
            lv = ln.lanes(la, mask)
            rv = rn.lanes(ra, mask)
            want = 0
            for a, b in zip(ln.outputs, rn.outputs):
                want |= lv[a] ^ rv[b]
            ma = {x: var_lanes(i, n) for i, x in enumerate(mnet.inputs)}
            got = lax_lanes(mnet, ma, mask, only=mnet.outputs)[mnet.outputs[0]]
        except ModelError as e:
            self.violate('C13', 'value', 'uninterpretable', str(e))
            return
        if got != want:
            self.violate('C13', 'value', f'outputs={k}', 'the miter output is not True exactly where the output vectors differ')
        else:
            st.bump('miter:value-checked')
        # the miter must be evaluable by cirbo itself ("one output that evaluates to True exactly ...")
        try:
            rows = [rng.randrange(L)]
            ones = [j for j in range(min(L, 4096)) if (want >> j) & 1]
            zeros = [j for j in range(min(L, 4096)) if not (want >> j) & 1]
            if ones:
                rows.append(rng.choice(ones))
            if zeros:
                rows.append(rng.choice(zeros))
            for jrow in rows:
                # lane j of the model is the assignment whose binary encoding is j, input 0 most significant
                row = [bool((jrow >> (n - 1 - i)) & 1) for i in range(n)]
                val = miter.evaluate(row)
                if len(val) != 1 or bool(val[0]) != bool((want >> jrow) & 1):
                    self.violate('C13', 'value', f'evaluate:outputs={"1" if k == 1 else ("2-8" if k <= 8 else ("9-16" if k <= 16 else "17+"))}',
                                 f'miter.evaluate({row}) = {val}; the output vectors {"differ" if (want >> jrow) & 1 else "agree"} on this input')
                    break
            st.bump('miter:evaluated-by-cirbo')
        except Exception as e:  # noqa
            self.violate('C13', 'not-evaluable', f'outputs={"1" if k == 1 else "n"}:{exc_name(e)}',
                         f'miter.evaluate raised {exc_name(e)}: {e}')
        if k == 1:
            st.bump('miter:single-output')
        if any(o in ln.inputs for o in ln.outputs) or any(o in rn.inputs for o in rn.outputs):
            st.bump('miter:output-that-is-input')
        # satisfiable exactly when inequivalent, through the solver peer
        if any(f.get('kind') == 'backend-error' for f in op.get('f', ())):
            # the back end fails during the first query: an exception is fine, an answer has to be right; then again
            try:
                res0 = S.is_circuit_satisfiable(miter)
            except Exception as e:  # noqa
                res0 = None
                st.bump(f'sat:backend-error-reached-the-caller:{exc_name(e)}')
            if res0 is not None and bool(res0.answer) != bool(want):
                self.violate('C13', 'sat', 'answer:after-backend-error',
                             f'the solver failed during the query, yet satisfiable={res0.answer} was reported; the operands are {"in" if want else ""}equivalent')
        try:
            res = S.is_circuit_satisfiable(miter)
        except Exception as e:  # noqa
            self.violate('C13', 'sat', f'raised:{exc_name(e)}', f'is_circuit_satisfiable(miter) raised {exc_name(e)}: {e}')
            return
        if bool(res.answer) != bool(want):
            self.violate('C13', 'sat', 'answer', f'satisfiable={res.answer} but the operands are {"in" if want else ""}equivalent')
        elif res.answer:
            ms = set(res.model or [])
            j = 0
            for i in range(n):
                if (i + 1) in ms:
                    j |= 1 << (n - 1 - i)
            if not (want >> j) & 1:
                self.violate('C13', 'sat', 'model', 'the model does not project onto a distinguishing assignment')
            else:
                st.bump('miter:distinguishing-assignment-checked')
        else:
            st.bump('miter:equivalent-confirmed-unsat')
        if len(mnet.gates) <= 60:
            ms_ = self.new_slot(miter)
            self.settle([ms_], with_copy=False)

    def op_pxor_member(self, op, rng):
        """A pairwise-xor circuit obtained from the public generator joins the population
        (and may then be edited in place by later ops, like any other member)."""
        s = self.pick(rng, lambda s: 1 <= len(s.net.outputs) <= 4)
        k = len(s.net.outputs) if s is not None else rng.randint(1, 3)
        real = self.call(lambda: self.m['gen'].generate_pairwise_xor(k), [], True, f'generate_pairwise_xor({k})', family='C13')
        new = self.new_slot(real)
        self.settle([new], with_copy=False)

    def _miter_operands_unchanged(self, left, right_slot, right_real, rn):
        try:
            lnow, lusers = observe.snap(left.real)
            if not observe.same_view(lnow, left.net) or lusers != left.users:
                self.violate('C13', 'operand-modified', 'left', 'build_miter modified its left operand')
            rnow, _ = observe.snap(right_real)
            if not observe.same_view(rnow, rn):
                self.violate('C13', 'operand-modified', 'right', 'build_miter modified its right operand')
        except Exception as e:  # noqa
            self.violate('C13', 'operand-modified', 'unreadable', str(e))
