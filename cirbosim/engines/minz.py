"""Engine MIN (C04): minimize_subcircuits driven by three peers.

The control flow of the real code is decided by its peers: which cuts SimCuts hands
back (faithful or adversarial-but-admissible family, in which order), which synthesis
calls SimPool lets finish, time out or die on the virtual clock, which model SimSAT
returns, and in which order a set of leaves is listed (PYTHONHASHSEED of the batch).
"""
from __future__ import annotations

import random

from .. import ctx, gennet, observe, world
from ..refnet import ModelError, Net
from ..util import weighted_choice
from .base import RunResult, Violation, exc_name, innermost_cirbo_frame

SUPPORTED = ('NOT', 'AND', 'NAND', 'OR', 'NOR', 'XOR', 'NXOR', 'GEQ', 'LT', 'LEQ', 'GT')
NONTRIVIAL_EXCLUDED = ('INPUT', 'NOT', 'LNOT', 'RNOT', 'IFF', 'LIFF', 'RIFF', 'ALWAYS_FALSE', 'ALWAYS_TRUE')


def nontrivial(net: Net) -> int:
    return sum(1 for t, _ in net.gates.values() if t not in NONTRIVIAL_EXCLUDED)


class MinEngine:
    name = 'MIN'

    def __init__(self, mods):
        self.m = mods
        self.Circuit = mods['Circuit']
        self.GT = mods['GT']

    def gen(self, rng: random.Random, prop, tier, run_index):
        cfg = {
            'cuts': 'faithful' if rng.random() < 0.5 else 'adversarial',
            'sat_model_order': rng.choice(('ascending', 'ascending', 'shuffled')),
            'uuid_order': rng.choice(('asc', 'desc', 'random')),
            'timeout_rate': rng.choice((0.0, 0.0, 0.05, 0.25, 0.6, 1.0)),
            'death_rate': rng.choice((0.0, 0.0, 0.0, 0.03)),
            'pool_big_clauses': 9000 if tier == 'quick' else 30000,
        }
        ops = []
        for _ in range(rng.randint(1, 3)):
            op = {'k': 'minimize', 's': rng.getrandbits(48)}
            faults = []
            for call in range(1, 31):
                r = rng.random()
                if r < cfg['death_rate']:
                    faults.append({'at': f'pool.call#{call}', 'kind': 'death'})
                elif r < cfg['death_rate'] + cfg['timeout_rate']:
                    faults.append({'at': f'pool.call#{call}', 'kind': 'timeout'})
            if rng.random() < 0.05:
                faults.append({'at': f'uuid#{rng.randint(1, 20)}', 'kind': 'collide'})
            if faults:
                op['f'] = faults
            ops.append(op)
        return {'cfg': cfg, 'ops': ops}

    def execute(self, run, prop, run_seed=0) -> RunResult:
        from ..peers import uuidsrc

        self.res = RunResult()
        self.cfg = run['cfg']
        self.last = None  # last returned circuit (may be fed back)
        self.last_real = None
        uuidsrc.source.reset(run_seed, self.cfg.get('uuid_order', 'asc'))
        for i, op in enumerate(run['ops']):
            self.opi = i
            for f in op.get('f', ()):
                self.res.stats.scheduled.bump(f"{f['at'].split('#')[0]}:{f['kind']}")
            c = ctx.OpCtx(sub=op['s'], faults=op.get('f'), stats=self.res.stats)
            c.cfg = self.cfg
            ctx.set_cur(c)
            self.ev = {'i': i, 'k': op['k']}
            world.logtap.take()
            self.op_minimize(op, c.rng('op'))
            self.res.stats.outcomes.bump(f"{op['k']}:{self.ev.get('out', 'skip')}")
            self.res.events.append(self.ev)
        return self.res

    def violate(self, oracle, disc, msg):
        v = Violation(prop='C04', oracle=oracle, disc=disc, msg=str(msg)[:600], op=self.opi, k='minimize')
        self.res.violations.append(v)
        self.ev.setdefault('viol', []).append(v.sig)

    def wasteful_net(self, rng) -> Net:
        """A chain of deliberately wasteful blocks (each improvable in XAIG/FULL, several in AIG), so that one
        call performs several replacements and later cuts meet the structure earlier ones changed."""
        n = rng.choice((2, 3, 3, 4))
        gates = {str(i): ('INPUT', ()) for i in range(n)}
        inputs = [str(i) for i in range(n)]
        pool = list(inputs)
        k = 0

        def new(t, ops):
            nonlocal k
            lab = f'w{k}'
            k += 1
            gates[lab] = (t, tuple(ops))
            return lab

        outs = []
        for _ in range(rng.randint(2, 4)):
            a, b = rng.sample(pool, 2) if len(pool) >= 2 else (pool[0], pool[0])
            c = rng.choice(pool)
            if outs and rng.random() < 0.7:
                # nest: the new wasteful block reads the previous one
                a = outs[-1]
                if b == a:
                    b = rng.choice(inputs)
            style = rng.choice(('xor3', 'xnor3', 'and-or', 'mux', 'double-neg', 'maj'))
            if style == 'xor3':
                o = new('AND', [new('OR', [a, b]), new('NAND', [a, b])])
            elif style == 'xnor3':
                o = new('OR', [new('AND', [a, b]), new('NOR', [a, b])])
            elif style == 'and-or':
                o = new('OR', [new('AND', [a, b]), new('AND', [a, c])])
            elif style == 'mux':
                o = new('OR', [new('AND', [a, b]), new('GT', [c, a])])
            elif style == 'double-neg':
                o = new('NOT', [new('NOT', [new(rng.choice(('AND', 'OR', 'XOR')), [a, b])])])
            else:
                ab, bc, ac = new('AND', [a, b]), new('AND', [b, c]), new('AND', [a, c])
                o = new('OR', [new('OR', [ab, bc]), ac])
            pool.append(o)
            outs.append(o)
        outputs = [outs[-1]] + ([rng.choice(outs)] if rng.random() < 0.5 else [])
        return Net(gates, inputs, outputs)

    def distinct_functions(self, net: Net):
        try:
            val, _ = net.all_lanes()
        except ModelError:
            return False
        seen = set()
        for g in net.gates:
            if val[g] in seen:
                return False
            seen.add(val[g])
        return True

    def op_minimize(self, op, rng):
        st = self.res.stats.probes
        if 'a' in op:
            return self.run_case(op, rng, self.case_net(op['a']), op['a'])
        feedback = self.last is not None and rng.random() < 0.4
        if feedback:
            net = self.last
            st.bump('result-fed-back')
        else:
            dense = rng.random() < 0.25
            # AND, OR, XOR and their negations are n-ary folds: a three- or four-operand gate is a gate of the supported set
            arity = weighted_choice(rng, [(2, 7), (3, 2), (4, 1)])
            if arity > 2:
                st.bump('argument-has-gates-with-more-than-two-operands')
            if rng.random() < 0.3:
                net = self.wasteful_net(rng)
                st.bump('wasteful-circuit')
            elif dense:
                # few inputs, many gates, local wiring: many overlapping, improvable cones; several
                # replacements in one call, later cuts computed on the structure that earlier ones changed
                n = rng.choice((2, 3, 3, 4))
                g = rng.randint(9, 18)
                net = gennet.random_net(rng, n, g, list(SUPPORTED), arity, rng.choice(('plain', 'digits', 'plain', 'digits', 'lookalike')),
                                        n_outputs=rng.choice((1, 2, 3)), locality=rng.choice((0.6, 0.8, 0.9)))
                st.bump('dense-circuit')
            else:
                n = weighted_choice(rng, [(2, 3), (3, 5), (4, 4), (5, 2), (6, 1), (7, 0.6), (8, 0.4)])
                g = weighted_choice(rng, [(rng.randint(3, 8), 6), (rng.randint(9, 14), 3), (rng.randint(15, 25), 1)])
                net = gennet.random_net(rng, n, g, list(SUPPORTED), arity, rng.choice(('plain', 'digits', 'plain', 'digits', 'lookalike')),
                                        n_outputs=rng.choice((1, 1, 2, 2, 3)), locality=rng.choice((0.0, 0.5, 0.8)))
            if rng.random() < 0.02:
                net.outputs = []  # a circuit that marks no output at all: nothing to preserve but inputs and size
                st.bump('argument-without-outputs')
            elif not net.outputs:
                return
        try:
            how = weighted_choice(rng, [('build', 5), ('parse-shuffled', 3), ('build+rename', 2)])
            if feedback and self.last_real is not None and rng.random() < 0.7:
                # the very object an earlier call returned (its storage order is whatever the splices left behind)
                real = self.last_real
                how = 'returned-object'
            elif how == 'parse-shuffled':
                real = self.Circuit.from_bench_string(gennet.shuffled_bench(rng, net))
            else:
                real = observe.build_real(self.Circuit, self.GT, net)
                if how == 'build+rename':
                    inner = [g for g in net.gates if net.gates[g][0] != 'INPUT']
                    for g in rng.sample(inner, min(len(inner), rng.randint(1, 2))):
                        real.rename_gate(g, g + '_r')  # re-inserts the gate at the end of the gate table
            net, _ = observe.snap(real)
            st.bump(f'argument-built:{how}')
        except Exception:
            return
        armed = self.distinct_functions(net)
        if not armed and rng.random() < 0.7:
            # clean it with the real heavy cleanup, then ask the model again
            try:
                cleaned = self.m['minimization'].cleanup(real, use_heavy=True)
                cnet, _ = observe.snap(cleaned)
                if self.distinct_functions(cnet) and all(t in SUPPORTED or t == 'INPUT' for t, _ in cnet.gates.values()) \
                        and len(cnet.inputs) == len(net.inputs):
                    real, net, armed = cleaned, cnet, True
                    st.bump('argument-cleaned-by-heavy-cleanup')
            except Exception:
                pass
        if armed:
            st.bump('armed:no-equivalent-gates')
        else:
            st.bump('unarmed:has-equivalent-gates')
        bname = rng.choice(('AIG', 'XAIG', 'FULL'))
        sp = rng.choice(('enum', 'upper', 'lower'))
        kw = dict(
            enable_validation=rng.random() < 0.5,
            max_subcircuit_size=weighted_choice(rng, [(1, 1), (2, 2), (3, 4), (4, 4), (5, 3), (6, 1), (9, 0.5)]),
            solver_time_limit_sec=rng.choice((1, 5, 15)),
            cut_size=weighted_choice(rng, [(2, 2), (3, 4), (4, 3), (5, 1), (6, 0.4), (7, 0.3)]),
            cut_limit=weighted_choice(rng, [(2, 1), (3, 1), (5, 2), (8, 2), (25, 3)]),
        )
        if len(net.inputs) >= 6 and rng.random() < 0.5:
            # wide cuts matter only where a cone can have that many leaves
            kw['cut_size'] = rng.choice((6, 7, min(8, len(net.inputs))))
            kw['max_subcircuit_size'] = rng.choice((3, 4, 5, 6))
        case = {'gates': [[g, t, list(ops)] for g, (t, ops) in net.gates.items()], 'inputs': list(net.inputs),
                'outputs': list(net.outputs), 'basis': bname, 'spelling': sp, 'kw': kw, 'armed': armed}
        return self.run_case(op, rng, net, case, real)

    @staticmethod
    def case_net(case) -> Net:
        return Net({g: (t, tuple(ops)) for g, t, ops in case['gates']}, case['inputs'], case['outputs'])

    def run_case(self, op, rng, net, case, real=None):
        st = self.res.stats.probes
        if real is None:
            try:
                real = observe.build_real(self.Circuit, self.GT, net)
            except Exception:
                self.ev['out'] = 'skip:unbuildable'
                return
        armed = self.distinct_functions(net) if 'a' in op else case['armed']
        self.ev['case'] = case
        pre = net.copy()
        try:
            pre_tt = pre.tt()
        except ModelError:
            return
        Basis = self.m['cs'].Basis
        bname, sp, kw = case['basis'], case['spelling'], dict(case['kw'])
        basis = getattr(Basis, bname) if sp == 'enum' else (bname if sp == 'upper' else bname.lower())
        self.ev['call'] = (f'minimize_subcircuits(<{len(pre.inputs)} in, {len(pre.gates) - len(pre.inputs)} gates, outs={pre.outputs}>, '
                           f'basis={bname}/{sp}, {kw}) cuts={self.cfg["cuts"]} armed={armed}')
        self.ev['arg'] = pre.to_bench()
        pool_before = self.res.stats.peer_calls.get('pool.call', 0)
        fired_before = dict(self.res.stats.fired)
        result = exc = None
        try:
            result = self.m['minimization'].minimize_subcircuits(real, basis, **kw)
        except Exception as e:  # noqa
            exc = e
        marks_all = world.logtap.take()
        marks = sorted(set(marks_all))
        self.ev['branches'] = marks
        pools = self.res.stats.peer_calls.get('pool.call', 0) - pool_before
        died = self.res.stats.fired.get('pool.call:death', 0) - fired_before.get('pool.call:death', 0)
        timed = self.res.stats.fired.get('pool.call:timeout', 0) - fired_before.get('pool.call:timeout', 0)
        if timed:
            st.bump('op-with-timeouts')
        nspl = marks_all.count('spliced')
        if nspl >= 2:
            st.bump('op-with-two-or-more-replacements')
        if 'spliced' in marks:
            st.bump('branch:spliced')
            if timed:
                st.bump('spliced-in-an-op-with-timeouts')
        if 'trivial-branch' in marks:
            st.bump('branch:trivial')
        ncuts = getattr(ctx.cur, 'cuts_count', None)
        if ncuts is not None and pools > ncuts:
            self.violate('liveness', 'more-jobs-than-cuts', f'{pools} synthesis jobs for {ncuts} distinct cuts')
        if exc is not None:
            name = exc_name(exc)
            where = innermost_cirbo_frame(exc)
            self.ev['out'] = f'raised:{name}'
            bt = '+'.join(x for x in ('trivial-branch', 'spliced') if x in marks) or 'none'
            if name == 'FailedValidationError':
                self.violate('failed-validation', f'branches:{bt}', f'FailedValidationError: {self.ev["call"]}')
            elif name == 'UnsupportedOperationError':
                self.violate('internal-error', f'{name}@{where}', 'UnsupportedOperationError on a circuit over the supported gate set')
            elif name == 'ProcessExpired' and died:
                st.bump('worker-death-propagated')
            elif armed:
                self.violate('internal-error', f'{name}@{where}', f'{name}: {exc} [branches {bt}] {self.ev["call"]}')
            else:
                st.bump(f'unarmed-internal-error:{name}')
            return
        self.ev['out'] = 'ok'
        try:
            now, _ = observe.snap(result)
        except Exception as e:  # noqa
            self.violate('result', 'unreadable', str(e))
            return
        bt = '+'.join(x for x in ('trivial-branch', 'spliced') if x in marks) or 'none'
        if now.inputs != pre.inputs:
            self.violate('interface', 'inputs', f'{now.inputs} vs {pre.inputs}')
            return
        if len(now.outputs) != len(pre.outputs):
            self.violate('interface', 'output-count', f'{len(now.outputs)} vs {len(pre.outputs)}')
            return
        try:
            post_tt = now.tt()
        except ModelError as e:
            self.violate('truth-table', f'uninterpretable:branches:{bt}', str(e))
            return
        if post_tt != pre_tt:
            which = [i for i, (a, b) in enumerate(zip(pre_tt, post_tt)) if a != b]
            self.violate('truth-table', f'branches:{bt}', f'outputs {which} changed; result: {now.to_bench()!r}')
            return
        a, b = nontrivial(pre), nontrivial(now)
        if b > a:
            self.violate('size', f'branches:{bt}', f'{b} non-trivial gates in the result, {a} in the argument')
            return
        if b < a:
            st.bump('result-strictly-smaller')
        st.bump('equivalence-checked')
        self.ev['result'] = now.digest()
        if kw['enable_validation']:
            st.bump('validation-enabled-and-passed')
        self.res.states.add(pre.shape_digest())
        if len(now.gates) > len(now.inputs) and all(t in SUPPORTED or t == 'INPUT' for t, _ in now.gates.values()) \
                and all(len(ops) == (1 if t == 'NOT' else 2) for t, ops in now.gates.values() if t != 'INPUT'):
            self.last = now
            self.last_real = result
        else:
            self.last = None
            self.last_real = None

    # ------------------------------------------------------------------ shrinking of the argument circuit
    def shrink_args(self, run, fails, more):
        """Make the failing op's case explicit, then delete gates / outputs / inputs of
        the argument circuit while the same signature recurs."""
        res = self.execute(run, 'C04', run_seed=run.get('run_seed', 0))
        ops = [dict(o) for o in run['ops']]
        last = len(ops) - 1
        case = None
        for ev in res.events:
            if ev['i'] == last and 'case' in ev:
                case = ev['case']
        if case is None:
            return run
        base = dict(run)
        trial = dict(ops[last])
        trial['a'] = case
        cand = dict(base)
        cand['ops'] = [trial]  # earlier ops only mattered through the fed-back circuit, which is now explicit
        if fails(cand):
            base, ops, last = cand, [trial], 0
        else:
            cand['ops'] = ops[:last] + [trial]
            if not fails(cand):
                return run
            base, ops = cand, cand['ops']

        def attempt(new_case):
            t = dict(ops[last])
            t['a'] = new_case
            c = dict(base)
            c['ops'] = ops[:last] + [t]
            if fails(c):
                ops[last] = t
                base['ops'] = list(ops)
                return True
            return False

        changed = True
        while changed and more():
            changed = False
            cur = ops[last]['a']
            gates = cur['gates']
            # drop an output
            if len(cur['outputs']) > 1:
                for i in range(len(cur['outputs'])):
                    nc = dict(cur)
                    nc['outputs'] = cur['outputs'][:i] + cur['outputs'][i + 1:]
                    if more() and attempt(nc):
                        changed = True
                        break
                if changed:
                    continue
            # remove a gate, rewiring its users to one of its operands
            for idx in range(len(gates) - 1, -1, -1):
                g, t, gops = gates[idx]
                if t == 'INPUT':
                    users = any(g in o for _, _, o in gates)
                    if users or g in cur['outputs'] or len(cur['inputs']) <= 1:
                        continue
                    nc = dict(cur)
                    nc['gates'] = [x for x in gates if x[0] != g]
                    nc['inputs'] = [x for x in cur['inputs'] if x != g]
                    if more() and attempt(nc):
                        changed = True
                        break
                    continue
                done = False
                for rep in gops:
                    nc = dict(cur)
                    nc['gates'] = [[a, b, [rep if o == g else o for o in c]] for a, b, c in gates if a != g]
                    nc['outputs'] = [rep if o == g else o for o in cur['outputs']]
                    if more() and attempt(nc):
                        done = True
                        break
                if done:
                    changed = True
                    break
        return base
