"""Op family IO (C11, C16): files and byte streams, on circuits that live in the HIST
population (so that storage orders, labels and shapes come from histories).
"""
from __future__ import annotations

import io
import random

from .. import ctx, gennet, observe
from ..peers import fs as simfs
from ..refnet import ALL_TYPES, ModelError, Net, var_lanes
from ..util import weighted_choice
from .base import exc_name, innermost_cirbo_frame, is_instance_named
from .hist import MAX_INPUTS_TT, Hist

ENCODABLE = ('NOT', 'AND', 'OR', 'NOR', 'NAND', 'XOR', 'NXOR', 'IFF', 'GEQ', 'GT', 'LEQ', 'LT', 'ALWAYS_TRUE', 'ALWAYS_FALSE')
DB_ERRORS = ('CircuitsDatabaseError',)
IDENT_CHARS = set('abcdefghijklmnopqrstuvwxyzABCDEFGHIJKLMNOPQRSTUVWXYZ0123456789_.[]@')


def format_arity(t):
    return 1 if t in ('NOT', 'IFF') else 2


def is_encodable(net: Net) -> bool:
    for g, (t, ops) in net.gates.items():
        if t == 'INPUT':
            continue
        if t not in ENCODABLE or len(ops) != format_arity(t):
            return False
    return True


def seeded_key(rng: random.Random) -> str:
    style = weighted_choice(rng, [('ascii', 5), ('empty', 1), ('nonascii', 3), ('long', 1), ('tt', 2)])
    if style == 'empty':
        return ''
    if style == 'ascii':
        return ''.join(rng.choice('abcXYZ019_- ') for _ in range(rng.randint(1, 12)))
    if style == 'nonascii':
        # (U+FEFF is an ordinary character of a key; only a decoder that takes it for a byte-order mark drops it)
        return ''.join(rng.choice('aé∑ß漢ü0_𝄞\ufeff\u00a0\u2028') for _ in range(rng.randint(1, 8)))
    if style == 'long':
        return 'k' * rng.choice((255, 256, 65535, 40000))
    return '_'.join(''.join(rng.choice('01') for _ in range(4)) for _ in range(rng.randint(1, 3)))


class HistIO(Hist):
    # =================================================================== C16: circuit codec
    def deep_chain_codec(self, rng):
        """A long dependency chain stored users-before-operands (bench text that uses every gate before it defines
        it): "whatever the internal gate order" has no depth limit in it."""
        depth = rng.randint(1100, 2000)
        lines = ['INPUT(x)', 'INPUT(y)', f'OUTPUT(c{depth - 1})']
        for k in range(depth - 1, -1, -1):
            prev = f'c{k - 1}' if k else 'x'
            lines.append(f'c{k} = NOT({prev})' if rng.random() < 0.5 else f'c{k} = {rng.choice(("AND", "OR", "XOR"))}({prev}, y)')
        cenc = self.m['cenc']
        self.ev['call'] = f'encode_circuit(<chain of {depth} gates, stored deepest gate first>)'
        try:
            real = self.Circuit.from_bench_string('\n'.join(lines))
            net, _ = observe.snap(real)
        except Exception as e:  # noqa
            self.ev['out'] = f'not-built:{exc_name(e)}'
            return
        self.res.stats.probes.bump('codec:deep-chain')
        try:
            data = cenc.encode_circuit(real)
        except Exception as e:  # noqa
            nm = exc_name(e)
            self.ev['out'] = f'encode-raised:{nm}'
            self.violate('C16', 'encode', f'{"encodable-circuit-rejected" if is_instance_named(e, DB_ERRORS) else "non-codec-error"}:{nm}:deep-chain',
                         f'encode_circuit raised {nm} on a chain of {depth} binary/unary gates of the format')
            return
        try:
            dec = cenc.decode_circuit(data)
            dnet, _ = observe.snap(dec)
        except Exception as e:  # noqa
            self.ev['out'] = f'decode-raised:{exc_name(e)}'
            self.violate('C16', 'decode', f'raised:{exc_name(e)}:deep-chain', f'{exc_name(e)}: {e}')
            return
        self.ev['out'] = 'ok'
        try:
            a, mask = net.std_assign()
            da = {x: a[y] for x, y in zip(dnet.inputs, net.inputs)}
            if [net.lanes(a, mask)[o] for o in net.outputs] != [dnet.lanes(da, mask)[o] for o in dnet.outputs] \
                    or len(dnet.gates) != len(net.gates):
                self.violate('C16', 'roundtrip', 'truth-table:deep-chain', 'decoded chain computes something else')
        except ModelError:
            pass

    def op_codec(self, op, rng):
        if rng.random() < 0.006:
            return self.deep_chain_codec(rng)
        s = self.pick(rng, lambda s: s.net.is_acyclic())
        if s is None:
            return
        net = self.reread(s)
        cenc = self.m['cenc']
        order = observe.storage_order(s.real)
        enc_ok = is_encodable(net)
        st = self.res.stats.probes
        try:
            topo_pos = {g: i for i, g in enumerate(order)}
            nontopo = any(topo_pos[o] > topo_pos[g] for g, (_, ops) in net.gates.items() for o in ops)
        except KeyError:
            nontopo = False
        if nontopo:
            st.bump('codec:non-topological-storage-order')
        self.ev['call'] = f'encode_circuit(#{s.sid}) [{len(net.gates)} gates, encodable={enc_ok}, storage-non-topological={nontopo}]'
        tag = 'encodable' if enc_ok else 'outside-format'
        kinds = sorted({f'{t}/{len(ops)}' for t, ops in net.gates.values() if t != 'INPUT' and (t not in ENCODABLE or len(ops) != format_arity(t))})
        try:
            data = cenc.encode_circuit(s.real)
        except Exception as e:  # noqa
            nm = exc_name(e)
            self.ev['out'] = f'encode-raised:{nm}'
            if not is_instance_named(e, DB_ERRORS):
                self.violate('C16', 'encode', f'non-codec-error:{nm}', f'encode_circuit raised {nm}: {e} (offending kinds {kinds[:4]})')
            elif enc_ok:
                self.violate('C16', 'encode', f'encodable-circuit-rejected:{nm}', f'{nm}: {e}')
            else:
                st.bump('codec:unencodable-rejected')
            return
        try:
            dec = cenc.decode_circuit(data)
            dnet, _ = observe.snap(dec)
        except Exception as e:  # noqa
            nm = exc_name(e)
            self.ev['out'] = f'decode-raised:{nm}'
            why = 'storage-order' if (enc_ok and nontopo) else ('arity-outside-format' if kinds else tag)
            self.violate('C16', 'decode', f'raised:{nm}:{why}', f'encode_circuit succeeded but decode_circuit raised {nm}: {e} ({tag}, kinds outside the format: {kinds[:4]})')
            return
        self.ev['out'] = 'ok'
        n_in, n_out = len(net.inputs), len(net.outputs)
        n_g = len(net.gates) - n_in
        d_g = len(dnet.gates) - len(dnet.inputs)
        why = 'arity-outside-format' if kinds else tag
        if (len(dnet.inputs), len(dnet.outputs), d_g) != (n_in, n_out, n_g):
            self.violate('C16', 'roundtrip', f'shape:{why}', f'decoded ({len(dnet.inputs)} in, {len(dnet.outputs)} out, {d_g} gates) vs ({n_in}, {n_out}, {n_g})')
            return
        if n_in <= MAX_INPUTS_TT:
            try:
                a, mask = net.std_assign()
                v = net.lanes(a, mask)
                da, _ = dnet.std_assign()
                dv = dnet.lanes(da, mask)
                # gate for gate, up to renaming: inputs correspond in order, the other gates as a multiset
                for i, g in enumerate(net.inputs):
                    if dv.get(dnet.inputs[i]) != v[g]:
                        self.violate('C16', 'roundtrip', f'inputs:{why}', f'decoded input {i} is not input {g}')
                        return
                a_f = sorted(v[g] for g in net.gates if net.gates[g][0] != 'INPUT')
                b_f = sorted(dv[g] for g in dnet.gates if dnet.gates[g][0] != 'INPUT')
                if a_f != b_f:
                    self.violate('C16', 'roundtrip', f'function:{why}', 'the decoded gates do not compute the same functions as the original gates')
                    return
                if [dv[o] for o in dnet.outputs] != [v[o] for o in net.outputs]:
                    self.violate('C16', 'roundtrip', f'outputs:{why}', 'decoded outputs differ')
                    return
                st.bump('codec:roundtrip-checked')
                if not enc_ok:
                    st.bump('codec:outside-format-yet-roundtrips')
            except ModelError as e:
                self.violate('C16', 'roundtrip', f'uninterpretable:{why}', str(e))
                return
        # decoding is a function of the bytes: the caller may change the circuit it got and decode the same bytes again
        try:
            lab = 'zz_caller_edit'
            dec.add_inputs([lab])
            dec.mark_as_output(lab)
            if dnet.gates:
                dec.rename_gate(next(iter(dnet.gates)), 'zz_renamed')
            dec2 = cenc.decode_circuit(data)
            d2, _ = observe.snap(dec2)
            if not observe.same_view(d2, dnet):
                self.violate('C16', 'roundtrip', 'second-decode-differs', 'decoding the same bytes again (after the caller edited the first result) gives a different circuit')
                return
            st.bump('codec:second-decode-checked')
        except Exception as e:  # noqa
            self.violate('C16', 'roundtrip', f'second-decode-raised:{exc_name(e)}', f'{exc_name(e)}: {e}')
            return
        # probe (not judged): truncated encodings handed to decode_circuit
        if data and rng.random() < 0.3:
            k = rng.randrange(len(data))
            try:
                cenc.decode_circuit(data[:k])
                st.bump('codec:truncated-encoding-decoded(probe)')
            except Exception:
                st.bump('codec:truncated-encoding-rejected(probe)')
        self.res.states.add('codec:' + net.shape_digest())

    # =================================================================== C16: bit level
    def op_bitio(self, op, rng):
        B = self.m['bit_io']
        w = B.BitWriter()
        script = []
        self.ev['call'] = 'BitWriter/BitReader script'
        for _ in range(rng.randint(1, 12)):
            kind = rng.choice(('bit', 'number', 'number', 'byte', 'over'))
            if kind == 'bit':
                v = rng.random() < 0.5
                w.write(v)
                script.append(('bit', v, 1))
            elif kind == 'byte':
                v = rng.randrange(256)
                w.write_byte(v)
                script.append(('byte', v, 8))
            elif kind == 'number':
                width = rng.choice((0, 1, 3, 7, 8, 9, 16, 31, 64))
                v = rng.getrandbits(width) if width else 0
                if width and rng.random() < 0.3:
                    v = (1 << width) - 1
                w.write_number(v, width)
                script.append(('number', v, width))
            else:
                width = rng.choice((0, 1, 3, 8, 16))
                v = (1 << width) + rng.getrandbits(4)
                try:
                    w.write_number(v, width)
                    self.violate('C16', 'bit-io', 'over-wide-number-accepted', f'write_number({v}, {width}) did not raise')
                    return
                except Exception as e:  # noqa
                    if exc_name(e) != 'BitIOError':
                        self.violate('C16', 'bit-io', f'over-wide:{exc_name(e)}', f'write_number({v}, {width}) raised {exc_name(e)}')
                        return
                    self.res.stats.probes.bump('bitio:over-wide-rejected')
        data = bytes(w)
        r = B.BitReader(data)
        total = 0
        for kind, v, width in script:
            total += width
            try:
                got = r.read() if kind == 'bit' else (r.read_byte() if kind == 'byte' else r.read_number(width))
            except Exception as e:  # noqa
                self.violate('C16', 'bit-io', f'read-raised:{exc_name(e)}', f'reading back {kind}/{width} raised {exc_name(e)}')
                return
            if got != v:
                self.violate('C16', 'bit-io', f'roundtrip:{kind}', f'wrote {v} ({width} bits), read {got}')
                return
        if len(data) != (total + 7) // 8:
            self.violate('C16', 'bit-io', 'length', f'{total} bits written, {len(data)} bytes produced')
            return
        # reading past the end must raise BitIOError
        try:
            for _ in range(9):
                r.read()
            self.violate('C16', 'bit-io', 'read-past-end', 'reading past the end did not raise')
        except Exception as e:  # noqa
            if exc_name(e) != 'BitIOError':
                self.violate('C16', 'bit-io', f'read-past-end:{exc_name(e)}', 'wrong exception past the end')
        self.ev['out'] = 'ok'
        self.res.stats.probes.bump('bitio:roundtrip-checked')
        self.res.states.add('bits:' + data.hex()[:24])

    # =================================================================== C16: dictionary level + crash points
    def op_dictio(self, op, rng):
        D = self.m['bdio']
        d = {}
        for _ in range(rng.randint(0, 6)):
            vlen = weighted_choice(rng, [(0, 1), (rng.randint(1, 20), 6), (255, 1), (256, 1), (65535, 0.3)])
            d[seeded_key(rng)] = bytes(rng.getrandbits(8) for _ in range(vlen)) if vlen < 1000 else bytes([rng.getrandbits(8)]) * vlen
        st = self.res.stats.probes
        within = all(len(k.encode('utf-8')) <= 65535 and len(v) <= 65535 for k, v in d.items())
        nonascii = any(len(k.encode('utf-8')) != len(k) for k in d)
        self.ev['call'] = f'write_binary_dict({len(d)} entries, nonascii_keys={nonascii}, within_limits={within})'
        out = simfs.SimStream()
        try:
            D.write_binary_dict(d, out)
        except Exception as e:  # noqa
            self.ev['out'] = f'write-raised:{exc_name(e)}'
            if within:
                self.violate('C16', 'dict-io', f'write-raised:{exc_name(e)}', f'{exc_name(e)}: {e}')
            return
        data = bytes(out.written)
        if not within:
            return
        try:
            back = D.read_binary_dict(io.BytesIO(data))
        except Exception as e:  # noqa
            self.ev['out'] = f'read-raised:{exc_name(e)}'
            self.violate('C16', 'dict-io', f'roundtrip-raised:{exc_name(e)}:{"nonascii-key" if nonascii else "ascii"}', f'reading back what was written raised {exc_name(e)}: {e}')
            return
        if back != d:
            self.violate('C16', 'dict-io', f'roundtrip-differs:{"nonascii-key" if nonascii else "ascii"}', 'read(write(d)) != d')
            return
        self.ev['out'] = 'ok'
        st.bump('dictio:roundtrip-checked')
        if nonascii:
            st.bump('dictio:non-ascii-key')
        self.crash_points(data, d, lambda stream: D.read_binary_dict(stream), rng, 'dict')
        self.res.states.add('dict:' + str(len(data)) + ':' + data[:12].hex())

    def crash_points(self, data: bytes, expect, reader, rng, what):
        """F-TRUNC (every proper prefix), F-TRAIL (appended bytes), F-SHORT (short reads)."""
        st = self.res.stats
        n = len(data)
        if n <= 600:
            offsets = range(n)
        else:
            offsets = sorted(set(list(range(0, 40)) + [rng.randrange(n) for _ in range(60)] + list(range(n - 20, n))))
        for k in offsets:
            st.fired.bump('stream:truncated-at-offset')
            try:
                got = reader(io.BytesIO(data[:k]))
            except Exception:
                continue
            self.violate('C16', 'truncation', f'{what}:prefix-accepted', f'a {k}-byte prefix of a {n}-byte file was read as {len(got)} entries')
            return
        for _ in range(3):
            extra = bytes(rng.getrandbits(8) for _ in range(rng.randint(1, 4)))
            st.fired.bump('stream:trailing-bytes')
            try:
                reader(io.BytesIO(data + extra))
            except Exception:
                continue
            self.violate('C16', 'trailing', f'{what}:trailing-bytes-accepted', f'{len(extra)} trailing bytes were accepted')
            return
        for policy in (('one', 'random', 'alternate') if expect is not None else ()):
            stream = simfs.SimStream(data, policy, random.Random(rng.getrandbits(32)))
            st.fired.bump(f'stream:short-reads:{policy}')
            try:
                got = reader(stream)
            except Exception as e:  # noqa
                if exc_name(e) == 'BinaryDictIOError':
                    st.probes.bump('short-read:spurious-rejection')
                    continue
                self.violate('C16', 'short-read', f'{what}:{exc_name(e)}', f'short reads made the reader raise {exc_name(e)}')
                return
            if got != expect:
                self.violate('C16', 'short-read', f'{what}:different-data', 'under short reads the reader returned a different dictionary')
                return
            st.probes.bump('short-read:exact')
        st.probes.bump(f'crash-points-enumerated:{what}')

    # =================================================================== C16: database life cycle
    def op_db_history(self, op, rng):
        dbm = self.m['db']
        CircuitsDatabase = dbm.CircuitsDatabase
        simfs.FS.reset()
        st = self.res.stats.probes
        source_kind = weighted_choice(rng, [('none', 3), ('bytesio-empty', 2), ('bin', 2), ('xz', 2)])
        model = {}  # label -> (n_in, tt)
        seed_dict = {}
        D = self.m['bdio']
        cenc = self.m['cenc']
        # pre-populate file based sources with one stored circuit
        pre = self.pick(rng, lambda s: is_encodable(s.net) and s.net.is_acyclic() and len(s.net.inputs) <= 6 and s.net.outputs
                        and self._storage_topological(s))
        if source_kind != 'none' and pre is not None:
            try:
                seed_dict['pre'] = cenc.encode_circuit(pre.real)
                model['pre'] = (len(pre.net.inputs), pre.net.tt())
            except Exception:
                seed_dict = {}
                model = {}
        initial = dict(model)
        buf = simfs.SimStream()
        D.write_binary_dict(seed_dict, buf)
        raw = bytes(buf.written)
        saved_path, saved_lzma = dbm.Path, dbm.lzma
        dbm.Path, dbm.lzma = simfs.SimPath, simfs._SimLzma
        try:
            if source_kind == 'none':
                src = None
            elif source_kind == 'bytesio-empty':
                src = io.BytesIO(raw)
            elif source_kind == 'bin':
                simfs.FS.dirs.add('/db')
                simfs.FS.files['/db/store.bin'] = raw
                src = '/db/store.bin' if rng.random() < 0.5 else simfs.SimPath('/db/store.bin')
            else:
                simfs.FS.dirs.add('/db')
                simfs.FS.files['/db/store.bin.xz'] = simfs._SimLzma.compress(raw)
                src = simfs.SimPath('/db/store.bin.xz')
            db = CircuitsDatabase(src)
            opened = False
            log = []
            self.ev['call'] = f'CircuitsDatabase({source_kind}) history'
            for step in range(rng.randint(3, 10)):
                act = weighted_choice(rng, [('open', 2), ('close', 1), ('add', 5), ('get', 4), ('save-reopen', 2), ('get-missing', 1)])
                log.append(act)
                try:
                    if act == 'open':
                        if opened:
                            self._expect_raise(lambda: db.open(), 'CircuitDatabaseOpenError', 'double open')
                        else:
                            db.open()
                            opened = True
                    elif act == 'close':
                        if not opened:
                            self._expect_raise(lambda: db.close(), 'CircuitDatabaseCloseError', 'double close')
                        else:
                            db.close()
                            opened = False
                            model = dict(initial)  # a re-open reads the source again
                    elif act == 'add':
                        s = self.pick(rng, lambda s: s.net.is_acyclic() and len(s.net.inputs) <= 6 and s.net.outputs)
                        if s is None:
                            continue
                        label = f'Lab{step}' if rng.random() < 0.8 else None
                        if not opened:
                            self._expect_raise(lambda: db.add_circuit(s.real, label), 'CircuitDatabaseNotOpenedError', 'add on closed db')
                            continue
                        try:
                            db.add_circuit(s.real, label)
                        except Exception as e:  # noqa
                            if is_instance_named(e, DB_ERRORS):
                                st.bump(f'db:add-rejected:{exc_name(e)}')
                                continue
                            raise
                        if label is None:
                            label = '_'.join(''.join('1' if (v >> j) & 1 else '0' for j in range(1 << len(s.net.inputs))) for v in s.net.tt())
                        if is_encodable(s.net) and self._storage_topological(s):
                            model[label] = (len(s.net.inputs), s.net.tt())
                        else:
                            model[label] = None  # stored, but the codec clause of C16 judges it (op `codec`), not this history
                    elif act in ('get', 'get-missing'):
                        if not model and act == 'get':
                            continue
                        label = rng.choice(sorted(model)) if act == 'get' else 'no-such-label'
                        if not opened:
                            self._expect_raise(lambda: db.get_by_label(label), 'CircuitDatabaseNotOpenedError', 'get on closed db')
                            continue
                        want = model.get(label)
                        try:
                            got = db.get_by_label(label)
                        except Exception as e:  # noqa
                            if want is None and label in model:
                                continue
                            raise
                        if act == 'get-missing':
                            if got is not None:
                                self.violate('C16', 'db', 'missing-label-found', 'get_by_label of an unknown label returned a circuit')
                                return
                            continue
                        if want is None:
                            continue
                        if got is None:
                            self.violate('C16', 'db', 'stored-label-missing', f'{label} was added but get_by_label returns None')
                            return
                        gnet, _ = observe.snap(got)
                        if len(gnet.inputs) != want[0] or gnet.tt() != want[1]:
                            self.violate('C16', 'db', 'stored-circuit-differs', f'get_by_label({label}) does not compute the stored truth table')
                            return
                        st.bump('db:get-after-add-checked')
                        if rng.random() < 0.5 and gnet.outputs:
                            # the caller edits what it got (as get_by_raw_truth_table does when it denormalises)
                            got.set_outputs([])
                            got.add_inputs(['zz_caller_edit'])
                    elif act == 'save-reopen':
                        if not opened:
                            self._expect_raise(lambda: db.save(io.BytesIO()), 'CircuitDatabaseNotOpenedError', 'save on closed db')
                            continue
                        out = simfs.SimStream()
                        db.save(out)
                        blob = bytes(out.written)
                        how = rng.choice(('bytesio', 'bin', 'xz'))
                        if how == 'bytesio':
                            db2 = CircuitsDatabase(io.BytesIO(blob))
                        elif how == 'bin':
                            simfs.FS.dirs.add('/db')
                            simfs.FS.files[f'/db/s{step}.bin'] = blob
                            db2 = CircuitsDatabase(f'/db/s{step}.bin')
                        else:
                            simfs.FS.dirs.add('/db')
                            simfs.FS.files[f'/db/s{step}.bin.xz'] = simfs._SimLzma.compress(blob)
                            db2 = CircuitsDatabase(simfs.SimPath(f'/db/s{step}.bin.xz'))
                        db2.open()
                        keys = sorted(db2._dict.keys()) if hasattr(db2, '_dict') else None
                        # key set through the public API: every model label must be retrievable
                        for label, want in sorted(model.items()):
                            if want is None:
                                continue
                            got = db2.get_by_label(label)
                            if got is None:
                                self.violate('C16', 'db', 'saved-label-missing', f'{label} is missing after save and re-open ({how})')
                                return
                            gnet, _ = observe.snap(got)
                            if len(gnet.inputs) != want[0] or gnet.tt() != want[1]:
                                self.violate('C16', 'db', 'saved-circuit-differs', f'{label} differs after save and re-open ({how})')
                                return
                        db2.close()
                        st.bump(f'db:save-reopen-checked:{how}')
                        # torn write of the saved file: every proper prefix must be rejected on open
                        self.crash_points(blob, None, lambda stream: self._open_stream(CircuitsDatabase, stream), rng, 'db')
                except Exception as e:  # noqa
                    where = innermost_cirbo_frame(e)
                    self.violate('C16', 'db', f'raised:{exc_name(e)}@{where}:{act}', f'{act} raised {exc_name(e)}: {e} (history {log})')
                    return
            self.ev['out'] = 'ok'
            self.ev['log'] = log
            self.res.states.add('db:' + source_kind + ':' + ','.join(log))
        finally:
            dbm.Path, dbm.lzma = saved_path, saved_lzma

    @staticmethod
    def _open_stream(CircuitsDatabase, stream):
        db = CircuitsDatabase(io.BytesIO(stream.read()) if not isinstance(stream, io.BytesIO) else stream)
        db.open()
        return db._dict

    def _storage_topological(self, s):
        order = observe.storage_order(s.real)
        pos = {g: i for i, g in enumerate(order)}
        return all(pos[o] < pos[g] for g, (_, ops) in s.net.gates.items() for o in ops if o in pos)

    def _expect_raise(self, fn, name, what):
        try:
            fn()
        except Exception as e:  # noqa
            if exc_name(e) == name:
                self.res.stats.probes.bump(f'db:rejected:{what}')
                return
            raise
        raise AssertionError(f'{what} did not raise {name}')

    # =================================================================== C11: bench text
    def labels_are_identifiers(self, net: Net) -> bool:
        return all(g and all(ch in IDENT_CHARS for ch in g) for g in net.gates)

    def op_bench_roundtrip(self, op, rng):
        s = self.pick(rng, lambda s: self.labels_are_identifiers(s.net))
        if s is None:
            return
        net = self.reread(s)
        st = self.res.stats.probes
        via = weighted_choice(rng, [('string', 4), ('file', 3), ('lines', 1), ('generator', 1)])
        C = self.Circuit
        self.ev['call'] = f'#{s.sid} format -> parse via {via}'
        kw_prefixed = [g for g in net.gates if g.upper().startswith('INPUT') or g.upper().startswith('OUTPUT')]
        const_ops = [g for g, (t, ops) in net.gates.items() if t in ('ALWAYS_TRUE', 'ALWAYS_FALSE') and ops]
        if kw_prefixed:
            st.bump('bench:keyword-prefixed-label-printed')
        try:
            if via == 'file':
                back = self._save_and_load(s.real, rng)
                if back is None:
                    return
            else:
                text = s.real.format_circuit()
                if via == 'string':
                    back = C.from_bench_string(text)
                    if rng.random() < 0.3:
                        # the caller edits the parsed circuit and parses the same text again
                        back.add_inputs(['zz_caller_edit'])
                        back.mark_as_output('zz_caller_edit')
                        back = C.from_bench_string(text)
                else:
                    import cirbo.core.parser.bench as pb

                    lines = [l + '\n' for l in text.split('\n')]
                    if via == 'lines':
                        back = pb.BenchToCircuit().convert_to_circuit(lines)
                    else:
                        back = pb.BenchToCircuit().convert_to_circuit((l for l in lines))
        except Exception as e:  # noqa
            where = innermost_cirbo_frame(e)
            self.ev['out'] = f'raised:{exc_name(e)}'
            tag = 'keyword-label' if kw_prefixed else ('const-with-operands' if const_ops else via)
            self.violate('C11', 'roundtrip', f'raised:{exc_name(e)}@{where}:{tag}', f'{exc_name(e)}: {e}')
            return
        self.ev['out'] = 'ok'
        bnet, busers = observe.snap(back)
        tag = 'keyword-label' if kw_prefixed else ('const-with-operands' if const_ops else 'plain')
        src = 'file' if via == 'file' else 'string'
        if bnet.gates != net.gates:
            bad = sorted(g for g in set(net.gates) | set(bnet.gates) if net.gates.get(g) != bnet.gates.get(g))[:3]
            self.violate('C11', 'roundtrip', f'gates:{tag}', f'({src}) gates differ after the round trip, e.g. {bad}: {[net.gates.get(g) for g in bad]} vs {[bnet.gates.get(g) for g in bad]}')
        elif bnet.inputs != net.inputs:
            self.violate('C11', 'roundtrip', f'inputs:{tag}', f'({src}) {bnet.inputs} vs {net.inputs}')
        elif bnet.outputs != net.outputs:
            self.violate('C11', 'roundtrip', f'outputs:{tag}', f'({src}) {bnet.outputs} vs {net.outputs}')
        elif not (back == s.real):
            self.violate('C11', 'roundtrip', f'cirbo-equality:{tag}', f'({src}) parsed circuit != original by cirbo equality')
        else:
            st.bump(f'bench:roundtrip-checked:{src}')
            order = observe.storage_order(s.real)
            pos = {g: i for i, g in enumerate(order)}
            if any(pos[o] > pos[g] for g, (_, ops) in net.gates.items() for o in ops if o in pos):
                st.bump('bench:roundtrip-of-non-topological-storage-order')
        self.res.states.add('bench:' + net.shape_digest())

    def _save_and_load(self, real, rng):
        """save_to_file -> from_bench_file through SimFS."""
        cm = self.m['circuit_mod']
        simfs.FS.reset()
        scenario = weighted_choice(rng, [('plain', 3), ('missing-parents', 3), ('pre-existing-longer', 2), ('mkdir-race', 2),
                                         ('through-symlink', 2)])
        path = '/out/a/b/c.bench' if scenario in ('missing-parents', 'mkdir-race') else '/work/c.bench'
        if scenario in ('plain', 'pre-existing-longer'):
            simfs.FS.dirs.add('/work')
        if scenario == 'through-symlink':
            # /work/lnk -> /data/real/deep, and the caller's spelling climbs out of it again: the operating system
            # resolves "/work/lnk/.." to /data/real, which is not what the spelling looks like
            simfs.FS.dirs.update(('/work', '/data', '/data/real', '/data/real/deep'))
            simfs.FS.links['/work/lnk'] = '/data/real/deep'
            path = rng.choice(('/work/lnk/../c.bench', '/work/lnk/c.bench', '/work/lnk/../deep/../c.bench'))
            if rng.random() < 0.5:
                # an older file of another session sits where the spelling, read as text, seems to point
                simfs.FS.files['/work/c.bench'] = b'INPUT(stale)\nOUTPUT(stale)\n'
        if scenario == 'pre-existing-longer':
            simfs.FS.files[path] = b'INPUT(zzz)\n' * 500
        saved = cm.pathlib
        cm.pathlib = simfs.pathlib_module()
        cur = ctx.cur
        if scenario == 'mkdir-race':
            cur.faults.append({'at': 'fs.exists#1', 'kind': 'mkdir-race'})
            self.res.stats.scheduled.bump('fs.exists:mkdir-race')
        self.res.stats.probes.bump(f'fs:{scenario}')
        try:
            try:
                real.save_to_file(path)
            except FileExistsError:
                if scenario == 'mkdir-race':
                    self.res.stats.probes.bump('fs:mkdir-race-raised-FileExistsError(tolerated)')
                    self.ev['out'] = 'tolerated:FileExistsError'
                    return None
                raise
            if rng.random() < 0.04:
                # another tool put a long banner of comment lines in front of the saved text (70-90 KiB): the circuit
                # lines now lie beyond any fixed-size first read
                key = simfs._resolve(str(path))
                banner = b'\n'.join(b'# ' + b'generated by some flow; do not edit. ' * 2 for _ in range(rng.randint(950, 1200)))
                simfs.FS.files[key] = banner + b'\n' + simfs.FS.files[key]
                self.res.stats.probes.bump('fs:long-comment-banner-in-front-of-the-text')
                return self.Circuit.from_bench_file(path)
            if rng.random() < 0.06:
                # another tool appended comments to the saved file, the last of them in Latin-1: the file is no longer
                # valid UTF-8 from some point (beyond the first read chunk) on.  Refusing it is fine; a circuit that is
                # returned has to be the one the text denotes (comments denote nothing)
                key = simfs._resolve(str(path))
                simfs.FS.files[key] = simfs.FS.files[key] + b'\n' + b'\n'.join(b'# ' + b'pad ' * 30 for _ in range(80)) + b'\n# caf\xe9 cr\xe8me\n'
                self.res.stats.probes.bump('fs:file-with-undecodable-comment-appended')
                try:
                    return self.Circuit.from_bench_file(path)
                except Exception as e:  # noqa
                    self.res.stats.probes.bump(f'fs:undecodable-file-refused:{exc_name(e)}')
                    self.ev['out'] = f'tolerated:{exc_name(e)}'
                    return None
            back = self.Circuit.from_bench_file(path)
            if rng.random() < 0.4:
                # the same file is overwritten with another circuit - through a Path object or another spelling of
                # the same path - and loaded again: the second load must give the second circuit
                other = self.Circuit.bare_circuit(rng.randint(1, 3), prefix='ov')
                other.emplace_gate('ov_g', self.GT['NOT'], (other.inputs[0],))
                other.mark_as_output('ov_g')
                alt = rng.choice((simfs.SimPath(path), path.replace('/c.bench', '/./c.bench'), path))
                other.save_to_file(alt)
                again = self.Circuit.from_bench_file(rng.choice((path, simfs.SimPath(path))))
                if not (again == other):
                    self.violate('C11', 'roundtrip', 'reload-after-overwrite', 'loading a file that was overwritten gives the old circuit')
                else:
                    self.res.stats.probes.bump('fs:overwrite-then-reload-checked')
                # and the original again, so that the caller's comparison below is still about `real`
                real.save_to_file(path)
                back = self.Circuit.from_bench_file(path)
            return back
        finally:
            cm.pathlib = saved

    def op_bench_bad_text(self, op, rng):
        """A malformed bench text (rejected mid-stream), after which the caller goes on parsing other texts."""
        good = ['INPUT(a)', 'INPUT(b)', 'OUTPUT(s)', 'OUTPUT(k)', 's = XOR(a, b)', 'k = AND(a, b)']
        bad = rng.choice(('x = FROB(a, b)', 'this line has no equals sign', 'y = AND a, b', 'z = (a, b'))
        lines = list(good)
        lines.insert(rng.randint(2, len(lines)), bad)
        if rng.random() < 0.5:
            rng.shuffle(lines)
        text = '\n'.join(lines)
        self.ev['call'] = f'from_bench_string(<malformed: {bad!r}>)'
        try:
            self.Circuit.from_bench_string(text)
            self.ev['out'] = 'accepted-malformed'
        except Exception as e:  # noqa
            self.ev['out'] = f'rejected:{exc_name(e)}'
            self.res.stats.probes.bump('bench:malformed-text-rejected')

    def op_bench_layout(self, op, rng):
        """A model netlist rendered in a seeded layout restricted to the freedoms the
        statement names; the parsed circuit must denote what the text denotes."""
        n = rng.randint(0, 5)
        types = [t for t in ALL_TYPES if t != 'INPUT']
        net = gennet.random_net(rng, n, rng.randint(0, 10), types, self.cfg['max_arity'], rng.choice(('plain', 'digits', 'long')))
        # constants carry no operands in bench text
        for g, (t, ops) in list(net.gates.items()):
            if t in ('ALWAYS_TRUE', 'ALWAYS_FALSE'):
                net.gates[g] = (t, ())
        lines = []
        decl = [('in', x) for x in net.inputs] + [('gate', g) for g in net.gates if net.gates[g][0] != 'INPUT'] + [('out', i) for i in range(len(net.outputs))]
        mode = rng.choice(('canonical', 'shuffled', 'outputs-first', 'gates-reversed'))
        ins = [d for d in decl if d[0] == 'in']
        gs = [d for d in decl if d[0] == 'gate']
        outs = [d for d in decl if d[0] == 'out']
        if mode == 'shuffled':
            # inputs keep their relative order and so do outputs (their order is the interface);
            # everything may interleave
            merged = []
            pools = [list(ins), list(outs)]
            rng.shuffle(gs)
            pools.append(gs)
            while any(pools):
                p = rng.choice([p for p in pools if p])
                merged.append(p.pop(0))
            decl = merged
        elif mode == 'outputs-first':
            decl = outs + ins + gs
        elif mode == 'gates-reversed':
            decl = ins + gs[::-1] + outs
        used_alias = False
        trailing = False
        for kind, x in decl:
            if rng.random() < 0.15:
                lines.append(rng.choice(('', '# a comment', '#', '# INPUT(fake)', '   ', '\t', '  # an indented comment',
                                         # a comment may hold any character except the line feed, also those that
                                         # str.splitlines() (but not a text file) takes for line boundaries
                                         '# page\x0cOUTPUT(fake)', '# sep\x1cx = AND(a, b)', '# nel\x85 INPUT(fake)',
                                         '# ls\u2028OUTPUT(fake)', '# vt\x0bnote', '# ps\u2029y = NOT(fake)')))
            n_before = len(lines)
            if kind == 'in':
                lines.append(f'INPUT({x})')
            elif kind == 'out':
                lines.append(f'OUTPUT({net.outputs[x]})')
            else:
                t, ops = net.gates[x]
                name = t
                if t == 'IFF' and rng.random() < 0.6:
                    name = 'BUFF'
                    used_alias = True
                if t == 'ALWAYS_TRUE' and rng.random() < 0.5:
                    lines.append(f'{x} = {rng.choice(("vdd", "VDD", "Vdd"))}')
                    used_alias = True
                    continue
                case = rng.choice(('upper', 'lower', 'title', 'mixed'))
                if case == 'lower':
                    name = name.lower()
                elif case == 'title':
                    name = name.title()
                elif case == 'mixed':
                    name = ''.join(ch.lower() if rng.random() < 0.5 else ch for ch in name)
                lines.append(f'{x} = {name}({", ".join(ops)})')
            if len(lines) > n_before and rng.random() < 0.08:
                # a comment after the declaration, to the end of the line
                lines[-1] += rng.choice(('  # note', ' # OUTPUT(fake)', '\t#', ' #x = AND(a, b)'))
                trailing = True
        text = '\n'.join(lines)
        if rng.random() < 0.5:
            text += '\n'
        self.ev['call'] = f'from_bench_string(<layout {mode}, {len(lines)} lines>)'
        self.ev['text'] = text if len(text) < 1500 else text[:1500]
        try:
            real = self.Circuit.from_bench_string(text)
        except Exception as e:  # noqa
            where = innermost_cirbo_frame(e)
            self.ev['out'] = f'raised:{exc_name(e)}'
            self.violate('C11', 'layout', f'raised:{exc_name(e)}@{where}', f'{exc_name(e)}: {e}')
            return
        self.ev['out'] = 'ok'
        st = self.res.stats.probes
        bnet, _ = observe.snap(real)
        if bnet.inputs != net.inputs:
            self.violate('C11', 'layout', f'inputs:{mode}', f'{bnet.inputs} vs INPUT lines {net.inputs}')
        elif bnet.outputs != net.outputs:
            self.violate('C11', 'layout', f'outputs:{mode}', f'{bnet.outputs} vs OUTPUT lines {net.outputs}')
        elif bnet.gates != net.gates:
            bad = sorted(g for g in set(net.gates) | set(bnet.gates) if net.gates.get(g) != bnet.gates.get(g))[:3]
            self.violate('C11', 'layout', f'gates:{"alias" if used_alias else "plain"}', f'parsed {[bnet.gates.get(g) for g in bad]} for text denoting {[net.gates.get(g) for g in bad]}')
        else:
            st.bump('bench:layout-checked')
            if mode != 'canonical':
                st.bump('bench:layout-use-before-definition')
            if used_alias:
                st.bump('bench:layout-with-aliases')
            if len(net.inputs) <= MAX_INPUTS_TT and net.is_acyclic():
                try:
                    if bnet.tt() != net.tt():
                        self.violate('C11', 'layout', 'truth-table', 'parsed circuit computes something else than the text denotes')
                except ModelError:
                    pass
            s = self.new_slot(real)
            self.settle([s], with_copy=False)
