"""HIST engine with every op family mixed in."""
from .hist import FAMILY, MIX
from .hist_arith import HistArith
from .hist_sat import HistSat
from .hist_io import HistIO
from .hist_trav import HistTrav
from .hist_min import HistMin

_ARITH_MIX = {'new': 3, 'add_gate': 5, 'gadget': 22, 'copy': 1, 'rename': 1, 'connect': 2, 'mark_output': 1,
              'into_bench': 1, 'remove_gate': 1, 'replace_inputs': 1, 'set_outputs': 1}
for _p in ('C07', 'C08', 'C09'):
    MIX[_p] = dict(_ARITH_MIX)
MIX['C05'] = {'new': 4, 'add_gate': 7, 'rename': 1, 'connect': 2, 'into_bench': 1, 'replace_inputs': 1, 'mark_output': 2,
              'set_outputs': 2, 'tseytin': 12, 'circuit_sat': 8}
MIX['C13'] = {'new': 5, 'add_gate': 6, 'rename': 1, 'connect': 1, 'copy': 1, 'mark_output': 2, 'set_outputs': 2, 'miter': 12,
              'pxor_member': 2, 'order_inputs': 1, 'set_inputs': 1, 'into_bench': 1, 'order_outputs': 1, 'make_block': 1,
              'replace_inputs': 1, 'replace_subcircuit': 1, 'remove_gate': 1}
MIX['C16'] = {'new': 4, 'add_gate': 7, 'rename': 4, 'replace_subcircuit': 2, 'connect': 2, 'mark_output': 2, 'set_outputs': 1,
              'remove_gate': 1, 'into_bench': 1, 'codec': 12, 'bitio': 3, 'dictio': 4, 'db_history': 3}
MIX['C11'] = {'new': 4, 'add_gate': 7, 'rename': 4, 'connect': 2, 'mark_output': 2, 'set_outputs': 1, 'remove_gate': 1,
              'replace_inputs': 1, 'into_bench': 1, 'gadget': 1, 'bench_roundtrip': 12, 'bench_layout': 6, 'bench_bad_text': 2}
MIX['C20'] = {'new': 4, 'add_gate': 8, 'rename': 1, 'connect': 3, 'remove_gate': 1, 'mark_output': 2, 'set_outputs': 1,
              'replace_subcircuit': 1, 'into_bench': 2, 'replace_inputs': 1, 'remove_block': 1, 'make_block': 1, 'copy': 1,
              'traverse': 22}
for _p, _w in (('C11', 2), ('C16', 2), ('C05', 1), ('C20', 1), ('C14', 1)):
    MIX[_p]['minimize_member'] = _w
FAMILY.update({'tseytin': 'C05', 'circuit_sat': 'C05', 'miter': 'C13', 'pxor_member': 'C13', 'gadget': None})


class HistAll(HistArith, HistSat, HistIO, HistTrav, HistMin):
    def gen(self, rng, prop, tier, run_index):
        run = super().gen(rng, prop, tier, run_index)
        if prop in ('C07', 'C08', 'C09'):
            # fewer, heavier ops per run; at most a handful of gadgets
            run['ops'] = run['ops'][: rng.randint(4, 10)]
            if not any(o['k'] == 'gadget' for o in run['ops']):
                run['ops'].append({'k': 'gadget', 's': rng.getrandbits(48)})
        return run
