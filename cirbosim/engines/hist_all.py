"""HIST engine with every op family mixed in."""
from .hist import MIX
from .hist_arith import HistArith

_ARITH_MIX = {'new': 3, 'add_gate': 5, 'gadget': 22, 'copy': 1, 'rename': 1, 'connect': 2, 'mark_output': 1,
              'into_bench': 1, 'remove_gate': 1, 'replace_inputs': 1, 'set_outputs': 1}
for _p in ('C07', 'C08', 'C09'):
    MIX[_p] = dict(_ARITH_MIX)


class HistAll(HistArith):
    def gen(self, rng, prop, tier, run_index):
        run = super().gen(rng, prop, tier, run_index)
        if prop in ('C07', 'C08', 'C09'):
            # fewer, heavier ops per run; at most a handful of gadgets
            run['ops'] = run['ops'][: rng.randint(4, 10)]
            if not any(o['k'] == 'gadget' for o in run['ops']):
                run['ops'].append({'k': 'gadget', 's': rng.getrandbits(48)})
        return run
