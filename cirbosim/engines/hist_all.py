"""HIST engine with every op family mixed in."""
from .hist import Hist


class HistAll(Hist):
    pass
