"""Op `minimize_member`: a population member over the supported gate set is run through
`minimize_subcircuits` (with the peers in their default, fault-free personalities) and the result
joins the population.  Not a check of C04 (that is engine MIN); it only makes circuits that the
minimiser produced - and an argument it edited in place - available to the printers, codecs,
encoders and traversals of the other checks."""
from __future__ import annotations

from .. import gennet, observe
from .base import exc_name
from .hist import Hist
from .minz import SUPPORTED


class HistMin(Hist):
    def op_minimize_member(self, op, rng):
        def ok(s):
            n = s.net
            return (n.outputs and 1 <= len(n.inputs) <= 5 and 2 <= len(n.gates) - len(n.inputs) <= 14 and n.is_acyclic()
                    and all(t == 'INPUT' or (t in SUPPORTED and len(ops) == (1 if t == 'NOT' else 2)) for t, ops in n.gates.values())
                    and all(all(ch.isalnum() or ch in '_[].' for ch in g) for g in n.gates))

        s = self.pick(rng, ok)
        if s is None:
            net = gennet.random_net(rng, rng.randint(2, 4), rng.randint(3, 9), list(SUPPORTED), 2, 'plain', n_outputs=rng.choice((1, 2)),
                                    locality=0.6)
            if not net.outputs:
                return
            try:
                s = self.new_slot(observe.build_real(self.Circuit, self.GT, net))
            except Exception:
                return
        pre_tt = self.tt_of(s.net)
        self.ev['call'] = f'minimize_subcircuits(#{s.sid}, XAIG)'
        try:
            result = self.m['minimization'].minimize_subcircuits(s.real, rng.choice(('XAIG', 'AIG', 'FULL')), cut_size=rng.choice((2, 3, 4)),
                                                                max_subcircuit_size=rng.choice((3, 4, 5)), solver_time_limit_sec=5)
        except Exception as e:  # noqa
            self.ev['out'] = f'raised:{exc_name(e)}'
            self.quarantine([s], 'unexpected')
            return
        self.ev['out'] = 'ok'
        self.res.stats.probes.bump('population-member-minimised')
        # minimize_subcircuits edits Gate objects of its argument in place (all-trivial branch); a Gate object may be
        # shared with other circuits of the population (add_gate of one object to two circuits, replace_subcircuit).
        # No listed property speaks about that, so every member is simply re-read here (counted, never judged).
        for o in list(self.pop):
            if o is s:
                continue
            try:
                net, users = observe.snap(o.real)
                if not observe.same_view(net, o.net) or users != o.users:
                    self.res.cross.bump('minimize_subcircuits-changed-a-gate-object-shared-with-another-circuit')
                    if observe.wf(o.real, net, users, with_copy=False):
                        self.pop.remove(o)  # no longer a well-formed circuit: not raw material for the other checks
                    else:
                        o.net, o.users = net, users
            except Exception:
                if o in self.pop:
                    self.pop.remove(o)
        # the argument may have been edited in place (all-trivial branch): re-read it; it must still be a circuit
        try:
            s.net, s.users = observe.snap(s.real)
            if observe.wf(s.real, s.net, s.users, with_copy=False):
                # the argument was edited in place and is no longer a well-formed circuit: nothing any listed property
                # promises; it just is not raw material for the other checks any more
                self.res.cross.bump('minimize_subcircuits-left-its-argument-ill-formed')
                self.pop.remove(s)
            new = self.new_slot(result) if result is not s.real else s
            if observe.wf(new.real, new.net, new.users, with_copy=False):
                self.res.cross.bump('C04:minimised-result-ill-formed')
                if new in self.pop:
                    self.pop.remove(new)
                return
            if pre_tt is not None and self.tt_of(new.net) != pre_tt:
                self.res.cross.bump('C04:minimised-member-not-equivalent')
        except Exception:
            if s in self.pop:
                self.pop.remove(s)
