"""Engine HIST: seeded histories of public mutator calls on long-lived Circuit objects.

A population of real `Circuit` objects lives through a run.  Each op picks its
operands from the *current* world by selectors drawn from the op's private PRNG, asks
the model (RefNet) whether the documented preconditions hold, performs the real call,
re-reads the public view and evaluates the oracles.  After any outcome other than
`ok` the touched objects are quarantined (rebuilt from their last good snapshot).
"""
from __future__ import annotations

import copy as _copy
import random

from .. import ctx, gennet, observe
from ..refnet import (ALL_TYPES, BENCH_TYPES, BIN_ONLY, CONST, NARY, SYMMETRIC, UNARY, ModelError, Net, arity_ok,
                      var_lanes)
from ..util import Counter, H, digest, weighted_choice
from .base import RunResult, Violation, exc_name, innermost_cirbo_frame, is_instance_named

MAXPOP = 4
MAX_GATES = 60
MAX_INPUTS_TT = 10
# beyond MAX_INPUTS_TT inputs the truth table is sampled: 512 fixed pseudo-random rows, the i-th input (by position)
# always gets the same column, so two circuits with the same number of inputs are compared on the same rows
SAMPLE_ROWS = 512
SAMPLE_MASK = (1 << SAMPLE_ROWS) - 1
_SAMPLE_COLS = [__import__('random').Random(7919 + i).getrandbits(SAMPLE_ROWS) for i in range(96)]


def positional_assign(inputs):
    """(assignment, mask): all 2^n rows up to MAX_INPUTS_TT inputs, SAMPLE_ROWS fixed rows up to 96 inputs, else None."""
    n = len(inputs)
    if n <= MAX_INPUTS_TT:
        return {x: var_lanes(i, n) for i, x in enumerate(inputs)}, (1 << (1 << n)) - 1
    if n <= len(_SAMPLE_COLS):
        return {x: _SAMPLE_COLS[i] for i, x in enumerate(inputs)}, SAMPLE_MASK
    return None, None

CIRCUIT_ERRORS = ('CircuitError',)

# op kind -> property whose statement implies that a *valid* call succeeds
FAMILY = {
    'connect': 'C10', 'rename': 'C19', 'replace_inputs': 'C19', 'remove_gate': 'C19',
    'replace_subcircuit': 'C19', 'into_bench': 'C14', 'graphviz_bench': 'C14', 'rebench': 'C14',
}

MIX = {
    # kind: weight        C02 is the uniform mix; the others bias towards their ops
    'C02': {'new': 3, 'add_gate': 8, 'add_inputs': 2, 'remove_gate': 4, 'rename': 5, 'mark_output': 3,
            'set_outputs': 2, 'set_inputs': 2, 'order_inputs': 2, 'order_outputs': 2, 'replace_inputs': 3,
            'connect': 10, 'replace_subcircuit': 4, 'make_block': 3, 'block_from_slice': 2, 'delete_block': 1,
            'remove_block': 2, 'into_bench': 3, 'copy': 3, 'observe': 2, 'graphviz_bench': 1},
    'C10': {'new': 4, 'add_gate': 4, 'rename': 1, 'mark_output': 2, 'set_outputs': 1, 'connect': 24,
            'make_block': 1, 'copy': 2, 'remove_gate': 2, 'replace_inputs': 1, 'into_bench': 1, 'delete_block': 2},
    'C19': {'new': 3, 'add_gate': 6, 'rename': 8, 'replace_inputs': 6, 'remove_gate': 6, 'replace_subcircuit': 10,
            'mark_output': 2, 'connect': 3, 'make_block': 3, 'block_from_slice': 1, 'copy': 1, 'into_bench': 1},
    'C14': {'new': 4, 'add_gate': 9, 'into_bench': 10, 'graphviz_bench': 2, 'make_block': 5, 'block_from_slice': 2,
            'rename': 3, 'remove_gate': 2, 'copy': 2, 'connect': 3, 'mark_output': 2, 'replace_inputs': 2, 'replace_subcircuit': 3,
            'rebench': 3, 'set_outputs': 2, 'order_outputs': 2, 'order_inputs': 1, 'set_inputs': 1},
}


class Slot:
    __slots__ = ('real', 'net', 'users', 'sid', 'kin')

    def __init__(self, real, net, users, sid, kin=()):
        self.real, self.net, self.users, self.sid = real, net, users, sid
        self.kin = set(kin)  # sids this slot is a copy-relative of


class Quarantine(Exception):
    pass


class Hist:
    name = 'HIST'

    def __init__(self, mods):
        self.m = mods
        self.Circuit = mods['Circuit']
        self.GT = mods['GT']
        self.Gate = mods['Gate']

    # ------------------------------------------------------------------ generation
    def tier(self, prop, tier):
        if tier == 'quick':
            return {'runs': 6000, 'batch': 125, 'ops': (8, 30)}
        return {'runs': 120000, 'batch': 500, 'ops': (8, 40)}

    def mix_for(self, prop):
        return MIX.get(prop, MIX['C02'])

    def gen(self, rng: random.Random, prop, tier, run_index):
        t = self.tier(prop, tier)
        cfg = {
            'alphabet': weighted_choice(rng, [('plain', 5), ('digits', 3), ('keyword', 1), ('at', 1), ('long', 1), ('lookalike', 1)]),
            'max_arity': rng.choice((2, 2, 3, 4, 4, 9)),
            'max_inputs': rng.choice((2, 3, 4, 5, 6)),
            'uuid_order': rng.choice(('asc', 'desc', 'interleave', 'random')),
            'types': 'all' if rng.random() < 0.6 else rng.choice(('bench', 'binary', 'noconst')),
            'p_invalid': rng.choice((0.0, 0.05, 0.15)),
            'p_fault': rng.choice((0.0, 0.0, 0.05, 0.2)),
        }
        mix = dict(self.mix_for(prop))
        # swarm: switch a random subset of op kinds off (never the property's own family)
        own = {k for k, p in FAMILY.items() if p == prop} | {'new', 'add_gate'}
        for k in sorted(mix):
            if k not in own and rng.random() < 0.25:
                mix[k] = 0
        table = sorted(mix.items())
        n_ops = rng.randint(*t['ops'])
        ops = []
        for _ in range(rng.randint(1, 3)):
            ops.append({'k': 'new', 's': rng.getrandbits(48)})
        while len(ops) < n_ops:
            k = weighted_choice(rng, table)
            op = {'k': k, 's': rng.getrandbits(48)}
            if k in ('into_bench', 'replace_subcircuit', 'graphviz_bench') and rng.random() < cfg['p_fault']:
                op['f'] = [{'at': f'uuid#{rng.randint(2, 6)}', 'kind': 'collide'}]
            if k in ('circuit_sat', 'miter') and rng.random() < cfg['p_fault']:
                op['f'] = [{'at': 'sat.solve#1', 'kind': 'backend-error'}]
            if k == 'traverse' and rng.random() < 2 * cfg['p_fault']:
                op['f'] = [{'at': f'task#{rng.randint(1, 4)}', 'kind': rng.choice(('abandon', 'hook-reentrant', 'hook-raises'))}
                           for _ in range(rng.choice((1, 1, 2)))]
            ops.append(op)
        return {'cfg': cfg, 'ops': ops}

    # ------------------------------------------------------------------ execution
    def execute(self, run, prop, run_seed=0) -> RunResult:
        from ..peers import uuidsrc

        self.res = RunResult()
        self.prop = prop
        self.cfg = run['cfg']
        self.pop: list[Slot] = []
        self.next_sid = 0
        self.fresh = 0
        self.retired = []
        self.label_types = {}
        uuidsrc.source.reset(run_seed, self.cfg.get('uuid_order', 'asc'))
        for i, op in enumerate(run['ops']):
            self.opi = i
            for f in op.get('f', ()):
                self.res.stats.scheduled.bump(f"{f['at'].split('#')[0]}:{f['kind']}")
            c = ctx.OpCtx(sub=op['s'], faults=op.get('f'), stats=self.res.stats)
            c.cfg = self.cfg
            ctx.set_cur(c)
            rng = c.rng('op')
            self.ev = {'i': i, 'k': op['k']}
            handler = getattr(self, 'op_' + op['k'], None)
            if handler is None:
                self.ev['out'] = 'skip:unknown-kind'
            else:
                try:
                    handler(op, rng)
                except Quarantine:
                    pass
            self.res.stats.outcomes.bump(f"{op['k']}:{self.ev.get('out', 'skip')}")
            self.res.events.append(self.ev)
        return self.res

    # ------------------------------------------------------------------ helpers
    def types(self):
        t = self.cfg.get('types', 'all')
        if t == 'bench':
            return [x for x in BENCH_TYPES if x != 'INPUT']
        if t == 'binary':
            return list(NARY) + [x for x in BIN_ONLY] + ['NOT']
        if t == 'noconst':
            return [x for x in ALL_TYPES if x not in CONST and x != 'INPUT']
        return [x for x in ALL_TYPES if x != 'INPUT']

    def violate(self, prop, oracle, disc, msg):
        v = Violation(prop=prop, oracle=oracle, disc=disc, msg=str(msg)[:400], op=self.opi, k=self.ev.get('k'))
        self.res.violations.append(v)
        self.ev.setdefault('viol', []).append(v.sig)
        if 'state' not in self.ev:
            try:
                self.ev['state'] = {f'#{s.sid}': s.net.to_bench() for s in self.pop}
            except Exception:
                pass

    def new_slot(self, real, kin=()):
        net, users = observe.snap(real)
        for g, (t, _) in net.gates.items():
            self.label_types.setdefault(g, set()).add(t)
        s = Slot(real, net, users, self.next_sid, kin)
        self.next_sid += 1
        if len(self.pop) >= MAXPOP:
            self.pop.pop(0)
        self.pop.append(s)
        return s

    def pick(self, rng, pred=None):
        cands = [s for s in self.pop if pred is None or pred(s)]
        if not cands:
            return None
        return cands[rng.randrange(len(cands))]

    def reread(self, s):
        """Re-read a member right before a read-only op judges it.  Should the object have moved since its last settle
        (something edited it behind the model's back), the op judges the object as it is *now*; the drift is counted as
        a cross observation and is for C02's bystander oracle to report, not for the read-only op."""
        try:
            net, users = observe.snap(s.real)
        except Exception:
            return s.net
        if not observe.same_view(net, s.net) or users != s.users:
            self.res.cross.bump('member-drifted-since-last-settle')
            s.net, s.users = net, users
        return s.net

    def fresh_label(self, rng, net: Net, extra=()):
        # now and then a label that was in use earlier in this run and has been freed (rename / remove): histories
        # re-use names, and anything derived from a label (helper gates, block names, caches) must cope
        retired = getattr(self, 'retired', None)
        if retired and rng.random() < 0.2:
            cands = [l for l, _ in retired if l not in net.gates and l not in extra]
            if cands:
                self.res.stats.probes.bump('freed-label-reused')
                return cands[rng.randrange(len(cands))]
        if rng.random() < 0.06:
            # gate labels and block names are separate name spaces: a gate may be called like a block (of this circuit
            # or of another member it will be composed with)
            names = sorted({b for s in self.pop for b in s.net.blocks if b and b not in net.gates and b not in extra})
            if names:
                self.res.stats.probes.bump('gate-labelled-like-a-block')
                return names[rng.randrange(len(names))]
        self.fresh += 1
        return gennet.make_label(rng, self.cfg.get('alphabet', 'plain'), 100 + self.fresh, set(net.gates) | set(extra))

    def retire(self, label, gtype=None):
        r = getattr(self, 'retired', None)
        if r is None:
            r = self.retired = []
        if all(l != label for l, _ in r) and not label.startswith('__'):
            r.append((label, gtype))
            if len(r) > 12:
                r.pop(0)

    def quarantine(self, slots, why):
        """Drop the real objects and rebuild them from the last good snapshot."""
        self.res.stats.probes.bump('quarantine:' + why)
        for s in slots:
            try:
                now, _ = observe.snap(s.real)
                if not observe.same_view(now, s.net):
                    self.res.stats.probes.bump('failed-call-had-mutated-object')
            except Exception:
                self.res.stats.probes.bump('failed-call-left-unreadable-object')
            try:
                s.real = observe.build_real(self.Circuit, self.GT, s.net)
                s.net, s.users = observe.snap(s.real)
            except Exception:
                if s in self.pop:
                    self.pop.remove(s)

    def call(self, fn, touched, valid, desc, family=None):
        """Perform the real call.  Returns (ok, retval).  Classifies the outcome; on
        anything other than a normal return quarantines `touched` and raises
        Quarantine."""
        self.ev['call'] = desc
        self.ev['valid'] = valid
        try:
            rv = fn()
        except Exception as e:  # noqa: the real code raised
            name = exc_name(e)
            if valid is True:
                where = innermost_cirbo_frame(e)
                self.ev['out'] = f'unexpected:{name}@{where}'
                fam = family or FAMILY.get(self.ev['k'])
                if fam:
                    self.violate(fam, 'valid-call-raised', f'{self.ev["k"]}:{name}@{where}', f'{desc}: {name}: {e}')
            else:
                self.ev['out'] = f'rejected:{name}'
            self.quarantine(touched, 'rejected' if valid is not True else 'unexpected')
            raise Quarantine()
        if valid is False:
            self.ev['out'] = 'accepted-invalid'
            # the model expected a rejection; nothing about the *result* is promised, but C02 speaks about
            # every call that returns normally: the object must still be well formed
            for s in touched:
                try:
                    problems = observe.wf(s.real, with_copy=False)
                except Exception as e:  # noqa
                    problems = [('view-unreadable', f'{exc_name(e)}: {e}')]
                for code, msg in problems[:2]:
                    self.violate('C02', 'wf', f'{self.ev["k"]}:{code}:after-call-expected-to-be-rejected', msg)
            self.quarantine(touched, 'accepted-invalid')
            raise Quarantine()
        self.ev['out'] = 'ok'
        return rv

    def settle(self, touched, with_copy=True, also=None):
        """After a normal return: re-read touched objects, judge WF (C02), check that
        untouched population members did not move, record the state."""
        bad_slots = []
        prev = {}
        for s in touched:
            prev[s.sid] = s.net
            try:
                net, users = observe.snap(s.real)
            except Exception as e:  # noqa
                self.violate('C02', 'wf', 'view-unreadable', f'{exc_name(e)}: {e}')
                bad_slots.append(s)
                continue
            problems = observe.wf(s.real, net, users, with_copy=with_copy)
            if problems:
                for code, msg in problems[:3]:
                    self.violate('C02', 'wf', f'{self.ev["k"]}:{code}', msg)
                    if also:
                        self.violate(also, 'wf', f'{self.ev["k"]}:{code}', msg)
                if self.prop in ('C02', also) or any(c in ('operand-missing', 'cyclic', 'output-missing') for c, _ in problems):
                    bad_slots.append(s)
                else:
                    # damage that is judged by another property's check: keep the damaged object alive so that
                    # its consequences (a later composition, conversion, evaluation ...) can reach this check's oracles
                    self.res.stats.probes.bump('damaged-object-kept-alive')
            s.net, s.users = net, users
        for s in self.pop:
            if s in touched:
                continue
            try:
                net, users = observe.snap(s.real)
                same = observe.same_view(net, s.net) and users == s.users
            except Exception:
                same = False
            if not same:
                rel = any(t.sid in s.kin or s.sid in t.kin for t in touched)
                fam = 'C02' if rel else (FAMILY.get(self.ev['k']) or 'C02')
                self.violate(fam, 'bystander-changed', f'{self.ev["k"]}:{"copy-relative" if rel else "other"}',
                             f'circuit #{s.sid} changed although the call did not involve it as a target')
                bad_slots.append(s)
        if bad_slots:
            self.ev['out'] = 'violation'
            # restore from the last good (pre-op) snapshot where there is one
            for s in bad_slots:
                good = prev.get(s.sid)
                try:
                    if good is None or good is s.net or not good.is_acyclic():
                        raise ValueError
                    s.real = observe.build_real(self.Circuit, self.GT, good)
                    s.net, s.users = observe.snap(s.real)
                except Exception:
                    if s in self.pop:
                        self.pop.remove(s)
            raise Quarantine()
        for s in touched:
            if len(s.net.gates) > len(s.net.inputs):
                self.res.states.add(s.net.shape_digest())
            if len(s.net.gates) > MAX_GATES and s in self.pop:
                self.pop.remove(s)
        self.ev['st'] = [s.net.digest() for s in touched]

    @staticmethod
    def owned_lists(real):
        """The list objects a circuit hands out as its own: c.inputs, c.outputs and every block's inputs / gates / outputs."""
        out = []
        try:
            out += [real.inputs, real.outputs]
            for b in real.blocks.values():
                out += [b.inputs, b.gates, b.outputs]
        except Exception:  # noqa
            pass
        return [l for l in out if isinstance(l, list)]

    def own_view(self, s, labels, rng, p=0.5):
        """Callers routinely hand a circuit one of the lists it reported itself (`c.inputs`,
        `c.outputs`): when the argument's content equals such a list, pass that very object."""
        if labels and rng.random() < p:
            try:
                if rng.random() < 0.6:
                    for b in s.real.blocks.values():
                        for own in (b.gates, b.outputs, b.inputs):
                            if list(own) == list(labels):
                                self.res.stats.probes.bump('argument-is-a-list-owned-by-a-block')
                                return own
                if list(labels) == list(s.real.inputs):
                    self.res.stats.probes.bump('argument-is-the-circuits-own-input-list')
                    return s.real.inputs
                if list(labels) == list(s.real.outputs):
                    self.res.stats.probes.bump('argument-is-the-circuits-own-output-list')
                    return s.real.outputs
                for b in s.real.blocks.values():
                    for own in (b.gates, b.outputs, b.inputs):
                        if list(own) == list(labels):
                            self.res.stats.probes.bump('argument-is-a-list-owned-by-a-block')
                            return own
            except Exception:  # noqa
                pass
        return labels

    def scribble(self, s, lists, what):
        """The caller goes on using (and changing) the list objects it passed in; the
        circuit must not move: it has to hold copies."""
        before, busers = observe.snap(s.real)
        owned = self.owned_lists(s.real)
        for l in lists:
            if isinstance(l, list) and not any(l is o for o in owned):
                l.append('__caller_scribble__')
                l.reverse()
        after, ausers = observe.snap(s.real)
        if not observe.same_view(before, after) or busers != ausers:
            self.violate('C02', 'argument-aliased', what, f'{what}: the circuit changed when the caller modified the list it had passed in')
            self.ev['out'] = 'violation'
            self.quarantine([s], 'violation')
            raise Quarantine()
        self.res.stats.probes.bump('argument-lists-scribbled')

    def tt_of(self, net: Net):
        """Output columns over all rows (few inputs) or over the fixed sample of rows (many inputs)."""
        if len(set(net.inputs)) != len(net.inputs):
            return None
        assign, mask = positional_assign(net.inputs)
        if assign is None:
            return None
        try:
            v = net.lanes(assign, mask, only=net.outputs)
            if len(net.inputs) > MAX_INPUTS_TT:
                self.res.stats.probes.bump('function-compared-on-sampled-rows')
            return [v[o] for o in net.outputs]
        except ModelError:
            return None

    # ------------------------------------------------------------------ constructors
    def op_new(self, op, rng):
        kind = weighted_choice(rng, [('empty', 1), ('bare', 2), ('bare_labels', 1), ('build', 6), ('parse', 3)])
        C = self.Circuit
        n = rng.randint(0, self.cfg['max_inputs'])
        if kind == 'empty':
            real = self.call(lambda: C(), [], True, 'Circuit()')
        elif kind == 'bare':
            pre = rng.choice(('', '', 'x', 'in_'))
            so = rng.random() < 0.3
            real = self.call(lambda: C.bare_circuit(n, prefix=pre, set_as_outputs=so), [], True,
                             f'bare_circuit({n},prefix={pre!r},set_as_outputs={so})')
        elif kind == 'bare_labels':
            labs = []
            for i in range(n):
                labs.append(gennet.make_label(rng, self.cfg['alphabet'], i, set(labs)))
            so = rng.random() < 0.3
            real = self.call(lambda: C.bare_circuit_with_labels(labs, set_as_outputs=so), [], True,
                             f'bare_circuit_with_labels({labs},set_as_outputs={so})')
        else:
            alpha = self.cfg['alphabet'] if kind == 'build' else rng.choice(('plain', 'digits'))
            net = gennet.random_net(rng, n, rng.randint(0, 10), self.types(), self.cfg['max_arity'], alpha)
            if kind == 'build' and net.inputs and rng.random() < 0.04 and '' not in net.gates and self.prop not in ('C11', 'C04'):
                # the first input carries the empty string as its label (any str is a label)
                x = net.inputs[0]
                ren = lambda y: '' if y == x else y
                net = Net({ren(g): (t, tuple(ren(o) for o in ops)) for g, (t, ops) in net.gates.items()},
                          [ren(y) for y in net.inputs], [ren(y) for y in net.outputs])
                self.res.stats.probes.bump('first-input-labelled-with-the-empty-string')
            if kind == 'build':
                real = self.call(lambda: observe.build_real(C, self.GT, net), [], True, f'build {len(net.gates)} gates')
            else:
                text = gennet.shuffled_bench(rng, net)
                real = self.call(lambda: C.from_bench_string(text), [], True, 'from_bench_string(shuffled)')
                self.res.stats.probes.bump('parsed-use-before-definition')
        s = self.new_slot(real)
        self.settle([s])

    def op_copy(self, op, rng):
        s = self.pick(rng)
        if s is None:
            return
        deep = rng.random() < 0.4
        real = self.call(lambda: _copy.deepcopy(s.real) if deep else _copy.copy(s.real), [s], True,
                         f'#{s.sid}.{"deepcopy" if deep else "copy"}()', family='C02')
        new = self.new_slot(real, kin={s.sid} | s.kin)
        s.kin.add(new.sid)
        if not (new.net.gates == s.net.gates and new.net.inputs == s.net.inputs and new.net.outputs == s.net.outputs):
            self.violate('C02', 'copy', 'unequal', 'copy has a different public view')
        self.settle([new])
        self.res.stats.probes.bump('copy-kept-in-population')

    # ------------------------------------------------------------------ simple mutators
    def op_add_gate(self, op, rng):
        s = self.pick(rng)
        if s is None:
            return
        net = s.net
        labels = list(net.gates)
        invalid = rng.random() < self.cfg['p_invalid']
        t = 'INPUT' if rng.random() < 0.1 else gennet.pick_type(rng, self.types(), len(labels))
        if t is None:
            t = 'INPUT'
        ops = () if t == 'INPUT' else gennet.pick_operands(rng, t, labels, self.cfg['max_arity'])
        lab = self.fresh_label(rng, net)
        had = sorted(x for x in self.label_types.get(lab, ()) if x != 'INPUT' and x in self.types())
        if had and labels and rng.random() < 0.7:
            # the label is re-used for a gate of a type it had earlier in this run (with other operands)
            t = rng.choice(had)
            ops = gennet.pick_operands(rng, t, labels, self.cfg['max_arity'])
        valid = True
        if invalid and labels:
            if rng.random() < 0.5:
                lab = rng.choice(labels)
            elif ops:
                ops = ops[:-1] + ('__missing__',)
            else:
                lab = rng.choice(labels)
            valid = False
        use_emplace = rng.random() < 0.5
        GT, Gate = self.GT, self.Gate
        gate_obj = None
        if use_emplace:
            fn = lambda: s.real.emplace_gate(lab, GT[t], tuple(ops))
        else:
            gate_obj = Gate(lab, GT[t], tuple(ops))
            fn = lambda: s.real.add_gate(gate_obj)
        self.call(fn, [s], valid, f'#{s.sid}.{"emplace_gate" if use_emplace else "add_gate"}({lab!r},{t},{list(ops)})')
        self.label_types.setdefault(lab, set()).add(t)
        self.settle([s])
        if gate_obj is not None and valid and rng.random() < 0.25:
            # Gate objects are values: the caller adds the very same object to a second circuit where it fits
            for o in self.pop:
                if o is not s and lab not in o.net.gates and all(x in o.net.gates for x in ops) and len(o.net.gates) < MAX_GATES:
                    self.call(lambda: o.real.add_gate(gate_obj), [o], True, f'#{o.sid}.add_gate(<same Gate object {lab!r}>)')
                    self.settle([o])
                    self.res.stats.probes.bump('gate-object-shared-between-circuits')
                    break
        if len(set(ops)) < len(ops):
            self.res.stats.probes.bump('gate-with-repeated-operand')

    def op_add_inputs(self, op, rng):
        s = self.pick(rng)
        if s is None:
            return
        labs = []
        for _ in range(rng.randint(0, 3)):
            labs.append(self.fresh_label(rng, s.net, labs))
        if rng.random() < 0.03 and '' not in s.net.gates and self.prop not in ('C11', 'C04'):
            labs.insert(0, '')  # the empty string is a label like any other (not a bench identifier, though)
            self.res.stats.probes.bump('input-labelled-with-the-empty-string')
        valid = True
        if rng.random() < self.cfg['p_invalid'] and (s.net.gates or labs):
            if labs and rng.random() < 0.4:
                labs.append(labs[0])  # the same new label twice within one call
            elif s.net.gates:
                labs.append(rng.choice(list(s.net.gates)))
            valid = len(set(labs)) == len(labs) and not any(l in s.net.gates for l in labs)
        self.call(lambda: s.real.add_inputs(labs), [s], valid, f'#{s.sid}.add_inputs({list(labs)})')
        self.scribble(s, [labs], 'add_inputs')
        self.settle([s])

    def op_remove_gate(self, op, rng):
        s = self.pick(rng, lambda s: s.net.gates)
        if s is None:
            return
        net = s.net
        users = net.users()
        free = [g for g in net.gates if not users[g]]
        used = [g for g in net.gates if users[g]]
        if used and (not free or rng.random() < max(self.cfg['p_invalid'], 0.1)):
            g, valid = rng.choice(used), False
        elif free:
            g, valid = rng.choice(free), True
        else:
            return
        pre = net.copy()
        try:
            pre_lanes, _ = pre.all_lanes() if len(pre.inputs) <= MAX_INPUTS_TT else (None, None)
        except ModelError:
            pre_lanes = None
        was_input = net.gates[g][0] == 'INPUT'
        self.ev['call'] = f'#{s.sid}.remove_gate({g!r})'
        try:
            s.real.remove_gate(g)
        except Exception as e:  # noqa
            self.ev['valid'] = valid
            self.ev['out'] = ('rejected:' if not valid else 'unexpected:') + exc_name(e)
            # C19: removing succeeds ONLY for a gate nobody uses; a refusal is never judged
            self.quarantine([s], 'rejected')
            return
        if not valid:
            self.violate('C19', 'remove', 'removed-gate-with-users', f'remove_gate({g}) returned although {users[g]} use it')
        self.ev['out'] = 'ok'
        self.retire(g, pre.gates.get(g, (None,))[0])
        now, _ = observe.snap(s.real)
        if g in now.gates or g in now.outputs:
            self.violate('C19', 'remove', 'label-still-present', f'{g} still in gates/outputs after remove_gate')
        if valid and pre_lanes is not None and not was_input:
            try:
                post_lanes, _ = now.all_lanes()
                for h in now.gates:
                    if h in pre_lanes and post_lanes[h] != pre_lanes[h]:
                        self.violate('C19', 'remove', 'frame', f'function of {h} changed by remove_gate({g})')
                        break
            except ModelError:
                pass
        if not valid:
            self.quarantine([s], 'accepted-invalid')
            return
        self.settle([s])

    def op_rename(self, op, rng):
        s = self.pick(rng, lambda s: s.net.gates)
        if s is None:
            return
        net = s.net
        labels = list(net.gates)
        # prefer interesting gates: inputs, repeated outputs, block members
        special = [g for g in labels if net.outputs.count(g) > 1 or any(g in b[1] or g in b[0] for b in net.blocks.values())]
        old = rng.choice(special) if special and rng.random() < 0.4 else rng.choice(labels)
        new = self.fresh_label(rng, net)
        valid = True
        if rng.random() < self.cfg['p_invalid']:
            r = rng.random()
            if r < 0.4:
                new = rng.choice(labels)
            elif r < 0.6:
                new = old  # a gate "renamed" to its own label
            else:
                old = '__absent__'
            valid = False
        pre = net.copy()
        pre_users = dict(s.users)
        if new == old and old in net.gates:
            # refusing is fine (the label is taken); a call that returns normally is a rename like any other and is
            # judged as one below: nothing may have moved
            self.ev['call'], self.ev['valid'] = f'#{s.sid}.rename_gate({old!r},{new!r})', False
            try:
                s.real.rename_gate(old, new)
            except Exception as e:  # noqa
                self.ev['out'] = f'rejected:{exc_name(e)}'
                self.quarantine([s], 'rejected')
                return
            self.ev['out'] = 'accepted-invalid'
            self.res.stats.probes.bump('rename-to-the-same-label-accepted')
        else:
            self.call(lambda: s.real.rename_gate(old, new), [s], valid, f'#{s.sid}.rename_gate({old!r},{new!r})')
        self.retire(old, pre.gates.get(old, (None,))[0])
        now, nusers = observe.snap(s.real)
        ren = lambda x: new if x == old else x
        exp_gates = {ren(g): (t, tuple(ren(o) for o in ops)) for g, (t, ops) in pre.gates.items()}
        if now.gates != exp_gates:
            self.violate('C19', 'rename', 'gates', 'gate map after rename is not the renamed gate map')
        if now.inputs != [ren(x) for x in pre.inputs]:
            self.violate('C19', 'rename', 'inputs', f'{now.inputs} vs {[ren(x) for x in pre.inputs]}')
        if now.outputs != [ren(x) for x in pre.outputs]:
            self.violate('C19', 'rename', 'outputs', f'{now.outputs} vs {[ren(x) for x in pre.outputs]}')
        exp_users = {ren(g): sorted(ren(u) for u in us) for g, us in pre_users.items()}
        if nusers != exp_users:
            self.violate('C19', 'rename', 'users', 'users index does not follow the renamed label')
        for name, (bi, bg, bo) in pre.blocks.items():
            got = now.blocks.get(name)
            exp = ([ren(x) for x in bi], [ren(x) for x in bg], [ren(x) for x in bo])
            if got is None or (list(got[0]), list(got[1]), list(got[2])) != exp:
                self.violate('C19', 'rename', 'blocks', f'block {name} does not follow the renamed label')
                break
        if any(old in b[1] or old in b[0] for b in pre.blocks.values()):
            self.res.stats.probes.bump('rename-of-block-member')
        if pre.outputs.count(old) > 1:
            self.res.stats.probes.bump('rename-of-repeated-output')
        self.settle([s])

    def op_mark_output(self, op, rng):
        s = self.pick(rng, lambda s: s.net.gates)
        if s is None:
            return
        g = rng.choice(list(s.net.gates))
        valid = True
        if rng.random() < self.cfg['p_invalid']:
            g, valid = '__absent__', False
        self.call(lambda: s.real.mark_as_output(g), [s], valid, f'#{s.sid}.mark_as_output({g!r})')
        self.settle([s])

    def op_set_outputs(self, op, rng):
        s = self.pick(rng, lambda s: s.net.gates)
        if s is None:
            return
        labels = list(s.net.gates)
        outs = [rng.choice(labels) for _ in range(rng.randint(0, 4))]
        if rng.random() < 0.12:
            outs = list(s.net.inputs if rng.random() < 0.5 else s.net.outputs)
        elif s.net.blocks and rng.random() < 0.12:
            # "the outputs of this block are the outputs of the circuit"
            blk = s.net.blocks[rng.choice(sorted(s.net.blocks))]
            outs = list(blk[1] if rng.random() < 0.5 else blk[2])  # (inputs, gates, outputs)
        valid = True
        if rng.random() < self.cfg['p_invalid']:
            outs.append('__absent__')
            valid = False
        outs = self.own_view(s, outs, rng)
        self.call(lambda: s.real.set_outputs(outs), [s], valid, f'#{s.sid}.set_outputs({list(outs)})')
        self.scribble(s, [outs], 'set_outputs')
        self.settle([s])

    def op_set_inputs(self, op, rng):
        s = self.pick(rng)
        if s is None:
            return
        ins = list(s.net.inputs)
        if rng.random() < 0.85:
            rng.shuffle(ins)
        valid = True
        if rng.random() < self.cfg['p_invalid'] and s.net.gates:
            r = rng.random()
            if r < 0.4 and ins:
                ins.pop()
            elif r < 0.7 and ins:
                ins.append(ins[0])
            else:
                non = [g for g, (t, _) in s.net.gates.items() if t != 'INPUT']
                if not non:
                    return
                ins.append(rng.choice(non))
            valid = False
        ins = self.own_view(s, ins, rng)
        self.call(lambda: s.real.set_inputs(ins), [s], valid, f'#{s.sid}.set_inputs({list(ins)})')
        self.scribble(s, [ins], 'set_inputs')
        self.settle([s])

    def op_order_inputs(self, op, rng):
        s = self.pick(rng, lambda s: s.net.inputs)
        if s is None:
            return
        ins = list(s.net.inputs)
        part = rng.sample(ins, rng.randint(0, len(ins)))
        valid = True
        if rng.random() < max(self.cfg['p_invalid'], 0.05):
            if part and rng.random() < 0.6:
                part.insert(rng.randint(0, len(part)), rng.choice(part))  # a label requested more often than it occurs
            else:
                part.append('__absent__')
            valid = False
        part = self.own_view(s, part, rng)
        self.call(lambda: s.real.order_inputs(part), [s], valid, f'#{s.sid}.order_inputs({list(part)})')
        self.scribble(s, [part], 'order_inputs')
        self.settle([s])

    def op_order_outputs(self, op, rng):
        s = self.pick(rng, lambda s: s.net.outputs)
        if s is None:
            return
        outs = list(s.net.outputs)
        part = rng.sample(outs, rng.randint(0, len(outs)))  # sub-multiset by position
        for bname in sorted(s.net.blocks):
            blk = s.net.blocks[bname]
            for key in (1, 2):  # (inputs, gates, outputs)
                if blk[key] and sorted(blk[key]) == sorted(outs) and rng.random() < 0.5:
                    part = list(blk[key])  # the order in which a block lists them
        valid = True
        if rng.random() < max(self.cfg['p_invalid'], 0.05):
            if part and rng.random() < 0.6:
                x = rng.choice(part)
                part = part + [x] * (outs.count(x) - part.count(x) + 1)  # once more than it occurs among the outputs
                rng.shuffle(part)
            else:
                part.append('__absent__')
            valid = False
        part = self.own_view(s, part, rng)
        self.call(lambda: s.real.order_outputs(part), [s], valid, f'#{s.sid}.order_outputs({list(part)})')
        self.scribble(s, [part], 'order_outputs')
        self.settle([s])

    def op_replace_inputs(self, op, rng):
        s = self.pick(rng, lambda s: s.net.inputs)
        if s is None:
            return
        pre = s.net.copy()
        ins = list(pre.inputs)
        chosen = rng.sample(ins, rng.randint(0, min(len(ins), 3)))
        k = rng.randint(0, len(chosen))
        if rng.random() < 0.15:
            chosen = list(ins)  # "fix every input", usually spelled replace_inputs(c.inputs, [])
            k = rng.choice((0, len(chosen)))
        to_true, to_false = chosen[:k], chosen[k:]
        valid = True
        if rng.random() < max(self.cfg['p_invalid'], 0.05) and chosen:
            to_false = to_false + [chosen[0]] if to_true else to_false + [to_false[0]]
            valid = False
            self.res.stats.probes.bump('replace_inputs-overlap')
        a_true, a_false = self.own_view(s, to_true, rng), self.own_view(s, to_false, rng)
        d = f'#{s.sid}.replace_inputs({list(to_true)},{list(to_false)})' + (' [the circuit\'s own input list passed]' if a_true is not to_true or a_false is not to_false else '')
        self.call(lambda: s.real.replace_inputs(a_true, a_false), [s], valid, d)
        now, _ = observe.snap(s.real)
        exp_inputs = [x for x in pre.inputs if x not in chosen]
        if now.inputs != exp_inputs:
            self.violate('C19', 'cofactor', 'inputs', f'{now.inputs} vs remaining inputs {exp_inputs}')
        elif len(pre.inputs) <= 96 and now.outputs == pre.outputs:
            # the cofactor, computed by the model on the *old* netlist over the remaining inputs
            assign, mask = positional_assign(exp_inputs)
            assign = dict(assign)
            for x in to_true:
                assign[x] = mask
            for x in to_false:
                assign[x] = 0
            try:
                want = pre.lanes(assign, mask, only=pre.outputs)
                got = self.tt_of(now)
                if got is not None and got != [want[o] for o in pre.outputs]:
                    self.violate('C19', 'cofactor', 'truth-table', 'result is not the cofactor over the remaining inputs')
            except ModelError:
                pass
        elif now.outputs != pre.outputs:
            self.violate('C19', 'cofactor', 'outputs', 'output list changed by replace_inputs')
        self.settle([s])

    # ------------------------------------------------------------------ blocks
    def op_make_block(self, op, rng):
        s = self.pick(rng, lambda s: s.net.gates)
        if s is None:
            return
        labels = list(s.net.gates)
        name = f'blk{rng.randint(0, 5)}'
        if rng.random() < 0.08:
            name = rng.choice(labels)  # a block called like one of the gates
            self.res.stats.probes.bump('block-named-like-a-gate')
        valid = name not in s.net.blocks
        gates = rng.sample(labels, rng.randint(0, min(len(labels), 5)))
        outs = [rng.choice(labels) for _ in range(rng.randint(0, 2))]
        ins = None if rng.random() < 0.5 else [rng.choice(labels) for _ in range(rng.randint(0, 2))]
        if valid and rng.random() < self.cfg['p_invalid']:
            gates = gates + ['__absent__']
            valid = False
        self.call(lambda: s.real.make_block(name, gates, outs, ins), [s], valid,
                  f'#{s.sid}.make_block({name!r},{list(gates)},{list(outs)},{None if ins is None else list(ins)})')
        self.scribble(s, [gates, outs, ins], 'make_block')
        self.settle([s])

    def op_block_from_slice(self, op, rng):
        s = self.pick(rng, lambda s: len(s.net.gates) > len(s.net.inputs))
        if s is None:
            return
        net = s.net
        cone = self.pick_cone(rng, net)
        if cone is None:
            return
        leaves, gates, outs = cone
        name = f'slice{rng.randint(0, 5)}'
        valid = name not in net.blocks
        if rng.random() < self.cfg['p_invalid'] and leaves:
            # drop a leaf: traversal may now reach a primary input that is not listed
            leaves = leaves[1:]
            valid = None  # may or may not be rejected; not judged
        self.call(lambda: s.real.make_block_from_slice(name, leaves, outs), [s], valid,
                  f'#{s.sid}.make_block_from_slice({name!r},{leaves},{outs})')
        self.settle([s])

    def op_delete_block(self, op, rng):
        s = self.pick(rng, lambda s: s.net.blocks)
        if s is None:
            return
        name = rng.choice(sorted(s.net.blocks))
        self.call(lambda: s.real.delete_block(name), [s], True, f'#{s.sid}.delete_block({name!r})')
        self.settle([s])

    def op_remove_block(self, op, rng):
        s = self.pick(rng, lambda s: s.net.blocks)
        if s is None:
            return
        net = s.net
        name = rng.choice(sorted(net.blocks))
        bi, bg, bo = net.blocks[name]
        users = net.users()
        gs = set(bg)
        valid = all(u in gs for g in bg if g in users for u in users[g]) and len(gs) == len(bg)
        if any(g not in net.gates for g in bg):
            valid = None
        self.call(lambda: s.real.remove_block(name), [s], valid, f'#{s.sid}.remove_block({name!r})')
        self.settle([s])

    # ------------------------------------------------------------------ cones (shared)
    def pick_cone(self, rng, net: Net, max_leaves=5, max_gates=8):
        """Choose a cut-bounded cone: returns (leaves, cone gates in topo order, cone
        outputs) or None."""
        non_inputs = [g for g, (t, ops) in net.gates.items() if t != 'INPUT' and ops]
        if not non_inputs:
            return None
        try:
            order = net.topo()
        except ModelError:
            return None
        pos = {g: i for i, g in enumerate(order)}
        roots = [rng.choice(non_inputs)]
        if rng.random() < 0.3:
            roots.append(rng.choice(non_inputs))
        roots = sorted(set(roots), key=pos.get)
        frontier = set()
        inner = set(roots)
        for r in roots:
            frontier.update(net.gates[r][1])
        frontier -= inner
        for _ in range(rng.randint(0, 6)):
            cand = sorted((g for g in frontier if net.gates[g][0] != 'INPUT' and net.gates[g][1]), key=pos.get)
            if not cand:
                break
            g = rng.choice(cand)
            nf = (frontier - {g}) | (set(net.gates[g][1]) - inner - {g})
            if len(nf) > max_leaves or len(inner) + 1 > max_gates:
                continue
            frontier = nf
            inner.add(g)
            frontier -= inner
        if not frontier:
            return None
        # a leaf must not be reachable *through* an inner gate only: recompute the cone
        leaves = sorted(frontier, key=pos.get)
        cone = set()
        stack = list(roots)
        while stack:
            g = stack.pop()
            if g in cone or g in frontier:
                continue
            cone.add(g)
            stack.extend(net.gates[g][1])
        if any(net.gates[g][0] == 'INPUT' for g in cone):
            return None
        users = net.users()
        outs = [g for g in sorted(cone, key=pos.get)
                if g in net.outputs or any(u not in cone for u in users[g]) or g in roots]
        return leaves, sorted(cone, key=pos.get), outs

    # ------------------------------------------------------------------ composition (C10)
    def op_connect(self, op, rng):
        base = self.pick(rng)
        if base is None:
            return
        others = [s for s in self.pop if s is not base]
        if others and rng.random() < 0.6:
            other = rng.choice(others)
            other_real, other_net, other_slots = other.real, other.net, [other]
        else:
            net = gennet.random_net(rng, rng.randint(0, 3), rng.randint(0, 5), self.types(), self.cfg['max_arity'],
                                    rng.choice(('plain', 'digits')), prefix=rng.choice(('', 'o', 'q')))
            other_real = observe.build_real(self.Circuit, self.GT, net)
            if rng.random() < 0.3 and len(net.gates) > len(net.inputs):
                gl = [g for g in net.gates if net.gates[g][0] != 'INPUT']
                other_real.make_block('inner', gl[:2], gl[:1])
            other_net, _ = observe.snap(other_real)
            other_slots = []
        b, o = base.net, other_net
        if len(b.gates) + len(o.gates) > MAX_GATES:
            return
        entry = weighted_choice(rng, [('connect_circuit', 5), ('connect_left', 2), ('connect_right', 2),
                                      ('connect_inputs', 1), ('extend_circuit', 2), ('add_circuit', 1)])
        right = False
        this_conn = other_conn = None
        b_labels, o_labels = list(b.gates), list(o.gates)
        if entry == 'connect_circuit':
            right = rng.random() < 0.5
            if right:
                k = rng.randint(0, min(len(b.inputs), len(o_labels), 3))
                this_conn = rng.sample(b.inputs, k)
                other_conn = rng.sample(o_labels, k)  # distinct; internal gates and inputs mixed
            else:
                k = rng.randint(0, min(len(o.inputs), 3)) if b_labels else 0
                other_conn = rng.sample(o.inputs, k)
                this_conn = [rng.choice(b_labels) for _ in range(k)]  # repeats and internal gates allowed
        elif entry == 'connect_left':
            if not b_labels and o.inputs:
                return
            this_conn = [rng.choice(b_labels) for _ in o.inputs]
            other_conn = list(o.inputs)
        elif entry == 'connect_right':
            right = True
            if len(o_labels) < len(b.inputs):
                return
            this_conn = list(b.inputs)
            other_conn = rng.sample(o_labels, len(b.inputs))
        elif entry == 'connect_inputs':
            right = True
            if len(b.inputs) != len(o.inputs):
                return
            this_conn, other_conn = list(b.inputs), list(o.inputs)
        elif entry == 'extend_circuit':
            right = rng.random() < 0.5
            ext_mode = weighted_choice(rng, [('defaults', 4), ('explicit-defaults', 2), ('explicit-empty', 2), ('explicit-some', 3)])
            if right:
                this_conn, other_conn = list(b.inputs), list(o.outputs)
            else:
                this_conn, other_conn = list(b.outputs), list(o.inputs)
            if ext_mode == 'explicit-empty':
                this_conn, other_conn = [], []
            elif ext_mode == 'explicit-some':
                if right:
                    k = rng.randint(0, min(len(b.inputs), len(o_labels), 3))
                    this_conn, other_conn = rng.sample(b.inputs, k), rng.sample(o_labels, k)
                else:
                    k = rng.randint(0, min(len(o.inputs), 3)) if b_labels else 0
                    other_conn = rng.sample(o.inputs, k)
                    this_conn = [rng.choice(b_labels) for _ in range(k)]
        else:
            this_conn, other_conn = [], []
        # naming: make most calls valid by choosing a prefix when labels would collide
        name, add_prefix = '', rng.random() < 0.8
        mapped = set(other_conn)
        collide = any(g in b.gates for g in o.gates if g not in mapped) or any(k in b.blocks for k in o.blocks)
        if collide and rng.random() < 0.9 or rng.random() < 0.4:
            name = f'B{self.opi}'
            used = getattr(self, 'block_names_used', None)
            if used is None:
                used = self.block_names_used = []
            orphaned = sorted({g.split('@')[0] for g in b.gates if '@' in g} - set(b.blocks))
            if orphaned and rng.random() < 0.3:
                # gates that still carry the prefix of a block whose record is gone (delete_block, remove_gate on a member)
                name = rng.choice(orphaned)
                self.res.stats.probes.bump('block-name-whose-record-is-gone-reused')
            elif used and rng.random() < 0.15:
                # a name that was used for an earlier attachment in this run (its block may be gone by now - remove_gate
                # on a member drops the record - while gates carrying its prefix are still there)
                name = rng.choice(used)
                self.res.stats.probes.bump('block-name-of-an-earlier-attachment-reused')
            elif name not in used:
                used.append(name)
                if len(used) > 8:
                    used.pop(0)
            if collide and rng.random() < 0.9:
                add_prefix = True
        exp = self.compose_expect(b, o, this_conn, other_conn, right, name, add_prefix)
        valid = exp['valid']
        kw = {}
        if name or rng.random() < 0.3:
            kw['name'] = name
        if not add_prefix or rng.random() < 0.3:
            kw['add_prefix'] = add_prefix
        R = base.real
        model_this, model_other = this_conn, other_conn

        def shaped(labels, owner):
            # Sequence[Label]: the list itself, a tuple, or the very list object a circuit reported (c.inputs / c.outputs)
            r = rng.random()
            if r < 0.2:
                return tuple(labels)
            if r < 0.45 and labels:
                for own in (owner.inputs, owner.outputs):
                    if list(own) == list(labels):
                        self.res.stats.probes.bump('connector-argument-is-a-circuits-own-list')
                        return own
            return labels

        a_this, a_other = shaped(model_this, R), shaped(model_other, other_real)
        if entry == 'connect_circuit':
            fn = lambda: R.connect_circuit(other_real, a_this, a_other, right_connect=right, **kw)
        elif entry == 'connect_left':
            fn = lambda: R.connect_left(other_real, a_this, **kw)
        elif entry == 'connect_right':
            fn = lambda: R.connect_right(other_real, a_other, **kw)
        elif entry == 'connect_inputs':
            fn = lambda: R.connect_inputs(other_real, **kw)
        elif entry == 'extend_circuit':
            if ext_mode == 'defaults':
                fn = lambda: R.extend_circuit(other_real, right_connect=right, **kw)
            else:
                fn = lambda: R.extend_circuit(other_real, this_connectors=a_this, other_connectors=a_other,
                                              right_connect=right, **kw)
                self.res.stats.probes.bump(f'extend_circuit:{ext_mode}')
        else:
            fn = lambda: R.add_circuit(other_real, **kw)
        desc = (f'#{base.sid}.{entry}(other={"#%d" % other_slots[0].sid if other_slots else "fresh"},this={this_conn},'
                f'other_conn={other_conn},right={right},name={name!r},add_prefix={add_prefix})')
        st = self.res.stats.probes
        if right and any(o.gates[g][0] != 'INPUT' for g in other_conn):
            st.bump('right-connect-on-internal-gates')
        if not right and any(b.gates[g][0] != 'INPUT' for g in this_conn):
            st.bump('left-connect-from-internal-gates')
        if not right and len(set(this_conn)) < len(this_conn):
            st.bump('left-connect-repeated-base-gate')
        if other_slots:
            st.bump('composition-with-population-member')
        accepted_collision = False
        if exp.get('why') in ('label-collision', 'length') and exp.get('inputs') is not None:
            self.ev['call'], self.ev['valid'] = desc, False
            try:
                fn()
            except Exception as e:  # noqa
                self.ev['out'] = f'rejected:{exc_name(e)}'
                self.quarantine([base], 'rejected')
                return
            self.ev['out'] = 'accepted-invalid'
            accepted_collision = True
            st.bump(f'composition-that-had-to-be-refused-accepted:{exp["why"]}')
        else:
            self.call(fn, [base], valid, desc)
        now, _ = observe.snap(base.real)
        # attached circuit unmodified
        o_now, _ = observe.snap(other_real)
        if not observe.same_view(o_now, o):
            self.violate('C10', 'attached-modified', entry, 'the attached circuit changed')
        if now.inputs != exp['inputs']:
            self.violate('C10', 'interface', f'inputs:{"right" if right else "left"}', f'{now.inputs} vs documented {exp["inputs"]}')
        elif now.outputs != exp['outputs']:
            self.violate('C10', 'interface', f'outputs:{"right" if right else "left"}', f'{now.outputs} vs documented {exp["outputs"]}')
        elif exp.get('out_lanes') is not None:
            try:
                na, nmask = positional_assign(now.inputs)
                nv = now.lanes(na, nmask, only=now.outputs)
                got = [nv[o] for o in now.outputs]
                if got != exp['out_lanes']:
                    bad = [i for i, (x, y) in enumerate(zip(got, exp['out_lanes'])) if x != y]
                    self.violate('C10', 'function', f'{"right" if right else "left"}', f'outputs {bad} do not compute the composition')
                else:
                    st.bump('composition-function-checked')
            except ModelError as e:
                self.violate('C10', 'function', 'uninterpretable', str(e))
        # block extraction
        if name and valid and len(set(this_conn)) == len(this_conn) and len(set(other_conn)) == len(other_conn) \
                and len(o.inputs) <= MAX_INPUTS_TT:
            self.check_block_extraction(base.real, name, o, right)
        if accepted_collision:
            for code, msg in observe.wf(base.real, with_copy=False)[:2]:
                self.violate('C02', 'wf', f'connect:{code}:after-call-expected-to-be-rejected', msg)
            self.quarantine([base], 'accepted-invalid')
            return
        self.settle([base])

    def check_block_extraction(self, real, name, o: Net, right):
        side = 'right' if right else 'left'
        try:
            blk = real.get_block(name)
            sub = blk.into_circuit()
            snet, _ = observe.snap(sub)
        except Exception as e:  # noqa
            self.violate('C10', 'block-extraction', f'{side}:{exc_name(e)}', f'get_block({name!r}).into_circuit() raised {exc_name(e)}: {e}')
            return
        try:
            if len(snet.inputs) != len(o.inputs) or len(snet.outputs) != len(o.outputs) or snet.tt() != o.tt():
                self.violate('C10', 'block-extraction', f'{side}:function', 'extracted block does not compute the attached circuit')
            else:
                self.res.stats.probes.bump('block-extraction-checked')
        except ModelError as e:
            self.violate('C10', 'block-extraction', f'{side}:uninterpretable', str(e))
            return
        # the extracted circuit belongs to the caller: editing it in place must not move the owner of the block, and a
        # second extraction gives the attached function again
        try:
            before, busers = observe.snap(real)
            if snet.gates:
                labs = list(snet.gates)
                sub.mark_as_output(labs[len(labs) // 2])
                if snet.outputs:
                    sub.rename_gate(snet.outputs[0], '__renamed_by_the_caller__')
            after, ausers = observe.snap(real)
            if not observe.same_view(before, after) or busers != ausers:
                self.violate('C10', 'block-extraction', f'{side}:extracted-circuit-shares-state-with-the-owner',
                             'editing the circuit returned by Block.into_circuit() changed the circuit that owns the block')
                return
            again, _ = observe.snap(real.get_block(name).into_circuit())
            if len(again.outputs) != len(o.outputs) or again.tt() != o.tt():
                self.violate('C10', 'block-extraction', f'{side}:function:second-extraction', 'a second extraction does not compute the attached circuit')
        except ModelError:
            pass
        except Exception as e:  # noqa
            self.res.stats.probes.bump(f'block-extraction-edit-refused:{exc_name(e)}')

    def compose_expect(self, b: Net, o: Net, this_conn, other_conn, right, name, add_prefix):
        """The documented composition, computed on the model: validity of the
        arguments, expected input/output lists, expected output functions."""
        exp = {'valid': True}
        why = None
        if name != '' and name in b.blocks:
            why = 'block-exists'
        if name == '' and '' in b.blocks:
            why = 'block-exists'
        if any(g not in b.gates for g in this_conn) or any(g not in o.gates for g in other_conn):
            why = 'connector-missing'
        elif len(this_conn) != len(other_conn):
            why = 'length'
        elif right and len(set(this_conn)) != len(this_conn):
            why = 'dup'
        elif not right and len(set(other_conn)) != len(other_conn):
            why = 'dup'
        elif right and any(b.gates[g][0] != 'INPUT' for g in this_conn):
            why = 'not-input'
        elif not right and any(o.gates[g][0] != 'INPUT' for g in other_conn):
            why = 'not-input'
        prefix = name + '@' if (name != '' and add_prefix) else ''
        mapping = {}
        accept_as = None
        if why == 'length':
            # lists of different length have to be refused; should the call return normally, only the pairs that exist
            # can have been identified, and every other input and output is "unconnected" and has to be kept
            k = min(len(this_conn), len(other_conn))
            this_conn, other_conn = list(this_conn[:k]), list(other_conn[:k])
            if not ((right and (len(set(this_conn)) != len(this_conn) or any(b.gates[g][0] != 'INPUT' for g in this_conn)))
                    or (not right and (len(set(other_conn)) != len(other_conn) or any(o.gates[g][0] != 'INPUT' for g in other_conn)))):
                accept_as, why = 'length', None
        if why is None:
            for i, g in enumerate(other_conn):
                mapping[g] = this_conn[i]
            if right and len(set(other_conn)) != len(other_conn):
                exp['valid'] = None  # documentation is silent: probe only
            new = {g: prefix + g for g in o.gates if g not in mapping}
            if any(l in b.gates for l in new.values()):
                why = 'label-collision'
            if any((prefix + k) in b.blocks for k in o.blocks):
                why = 'block-collision'
            if name and any((prefix + k) == name for k in o.blocks):
                exp['valid'] = None
            if not o.is_acyclic() or not b.is_acyclic():
                exp['valid'] = None
        if why is None and accept_as is not None:
            why = accept_as
        if why is not None:
            exp['valid'] = False
            exp['why'] = why
            if why not in ('label-collision', 'length') or (why == 'length' and accept_as is None):
                exp['inputs'] = exp['outputs'] = None
                return exp
            # a colliding label has to be refused; should the call return normally all the same, its result is still
            # held against the composition it claims to have built (computed below as if the labels were distinct)
        m = dict(new)
        m.update(mapping)
        exp['outputs'] = [x for x in b.outputs if x not in this_conn] + [m[x] for x in o.outputs if x not in other_conn]
        if right:
            replaced = {mapping[g] for g in other_conn if o.gates[g][0] != 'INPUT'}
            exp['inputs'] = [x for x in b.inputs if x not in replaced] + [m[x] for x in o.inputs if x not in other_conn]
        else:
            exp['inputs'] = list(b.inputs) + [m[x] for x in o.inputs if x not in other_conn]
        ins = exp['inputs']
        if len(ins) > 96 or exp['valid'] is None or (len(set(ins)) != len(ins) and why is None) or len(set(ins)) != len(ins):
            exp['out_lanes'] = None
            return exp
        var, mask = positional_assign(ins)
        try:
            if right:
                # the attached circuit is evaluated first; connected base inputs read its gates
                oa = {}
                for x in o.inputs:
                    oa[x] = var[m[x]]
                ov = o.lanes(oa, mask)
                ba = {}
                for x in b.inputs:
                    ba[x] = var[x] if x in var else None
                for g in other_conn:
                    ba[mapping[g]] = ov[g]
                bv = b.lanes(ba, mask)
            else:
                bv = b.lanes({x: var[x] for x in b.inputs}, mask)
                oa = {}
                for x in o.inputs:
                    oa[x] = bv[mapping[x]] if x in mapping else var[m[x]]
                ov = o.lanes(oa, mask)
            exp['out_lanes'] = [bv[x] for x in b.outputs if x not in this_conn] + [ov[x] for x in o.outputs if x not in other_conn]
        except ModelError:
            exp['out_lanes'] = None
        return exp

    # ------------------------------------------------------------------ replace_subcircuit (C19)
    def op_replace_subcircuit(self, op, rng):
        s = self.pick(rng, lambda s: len(s.net.gates) > len(s.net.inputs) and len(s.net.inputs) <= 96)
        if s is None:
            return
        net = s.net
        cone = self.pick_cone(rng, net)
        if cone is None:
            return
        leaves, gates, outs = cone
        if not outs or set(outs) & set(leaves) or len(leaves) > 11:
            return  # (wide root gates can have more leaves than a cut-bounded cone; 2^leaves rows are simulated below)
        # manufacture a replacement: copy the cone under fresh labels, then rewrite it
        taken = set(net.gates)
        sub_in = {}
        for l in leaves:
            if rng.random() < 0.5:
                sub_in[l] = l  # same label on both sides
            else:
                sub_in[l] = self.fresh_label(rng, net, taken)
                taken.add(sub_in[l])
        ren = dict(sub_in)
        sub = Net()
        for l in leaves:
            sub.gates[sub_in[l]] = ('INPUT', ())
            sub.inputs.append(sub_in[l])
        for g in gates:
            if g in outs and rng.random() < 0.5:
                ren[g] = g
            elif g not in outs and rng.random() < 0.2:
                # an inner gate of the replacement re-uses the label of the inner gate it stands for (the label is
                # free once the old cone is gone; minimize_subcircuits recycles labels like this)
                ren[g] = g
                self.res.stats.probes.bump('replace_subcircuit-inner-label-recycled')
            else:
                ren[g] = self.fresh_label(rng, net, taken)
                taken.add(ren[g])
        for g in gates:
            t, ops = net.gates[g]
            sub.gates[ren[g]] = (t, tuple(ren[o] for o in ops))
        equivalent = True
        for _ in range(rng.randint(0, 4)):
            self.rewrite(rng, sub, taken, keep={ren[g] for g in outs})
        extra_leaf = None
        if rng.random() < 0.25:
            # the caller lists one more gate of the circuit as an input of the replacement; the replacement may read it
            # without depending on it (x OR (z AND NOT z)): still functionally equivalent under the correspondence
            cands = [g for g in net.gates if g not in gates and g not in leaves]
            if cands:
                z = rng.choice(cands)
                zl = self.fresh_label(rng, net, taken) if rng.random() < 0.5 else z
                if zl not in sub.gates:
                    taken.add(zl)
                    sub.gates = {**{zl: ('INPUT', ())}, **sub.gates}
                    sub.inputs.append(zl)
                    sub_in[z] = zl
                    leaves = leaves + [z]
                    extra_leaf = z
                    if rng.random() < 0.6 and outs:
                        o = ren[rng.choice(outs)]
                        t0, ops0 = sub.gates[o]
                        core, nz, az = self._lab(rng, taken), self._lab(rng, taken), self._lab(rng, taken)
                        sub.gates[core] = (t0, ops0)
                        sub.gates[nz] = ('NOT', (zl,))
                        sub.gates[az] = ('AND', (zl, nz))
                        sub.gates[o] = ('OR', (core, az))
                        # keep `o` last so that build order stays operands-first
                        v = sub.gates.pop(o)
                        sub.gates[o] = v
                    self.res.stats.probes.bump('replace_subcircuit-extra-leaf')
        if rng.random() < 0.12:
            # deliberately NOT equivalent: flip one gate type (rejected-call flavour: nothing is promised)
            cands = [g for g in sub.gates if sub.gates[g][0] in ('AND', 'OR', 'XOR')]
            if cands:
                g = rng.choice(cands)
                t, ops = sub.gates[g]
                sub.gates[g] = ({'AND': 'OR', 'OR': 'XOR', 'XOR': 'AND'}[t], ops)
                equivalent = False
        sub.outputs = [ren[g] for g in outs]
        if rng.random() < 0.3:
            # which gates the replacement circuit itself marks as outputs is up to the caller; only the mapping matters
            sub.outputs = [x for x in sub.outputs if rng.random() < 0.5]
            self.res.stats.probes.bump('replace_subcircuit-replacement-outputs-not-all-marked')
        collides = False
        if rng.random() < 0.08:
            # an inner gate of the replacement carries the label of a host gate outside the removed cone: a label clash,
            # which must be refused (documented error), never silently resolved
            inner = [g for g in sub.gates if sub.gates[g][0] != 'INPUT' and g not in {ren[o] for o in outs}]
            outside = [g for g in net.gates if g not in gates and g not in leaves and g not in sub.gates]
            if inner and outside:
                a, b = rng.choice(inner), rng.choice(outside)
                sub.gates = {(b if k == a else k): (t, tuple(b if o == a else o for o in ops)) for k, (t, ops) in sub.gates.items()}
                sub.outputs = [b if o == a else o for o in sub.outputs]
                collides = True
                self.res.stats.probes.bump('replace_subcircuit-label-clash')
        # confirm equivalence on the model (guards the harness itself)
        try:
            la = {l: var_lanes(i, len(leaves)) for i, l in enumerate(leaves)}
            mask = (1 << (1 << len(leaves))) - 1
            v_old = net.lanes(dict(la), mask, only=outs)
            v_new = sub.lanes({sub_in[l]: la[l] for l in leaves}, mask)
            same = all(v_old[g] == v_new[ren[g]] for g in outs)
        except ModelError:
            return
        if same != equivalent:
            if equivalent:
                return  # a rewrite went wrong on the model side: do not use this case
            equivalent = same
        if rng.random() < 0.06:
            # the replacement circuit has one more input that nobody reads and that the correspondence does not mention
            # (a synthesiser that keeps the full input list of a wider cut): to be refused - or, if the call returns
            # normally, the circuit must keep its inputs and its function
            idle = self.fresh_label(rng, net, taken)
            taken.add(idle)
            sub.gates[idle] = ('INPUT', ())
            sub.inputs.append(idle)
            self.res.stats.probes.bump('replace_subcircuit-replacement-with-unmapped-idle-input')
        try:
            sub_real = observe.build_real(self.Circuit, self.GT, sub)
        except Exception:
            return
        in_map = {l: sub_in[l] for l in leaves}
        out_map = {g: ren[g] for g in outs}
        if len(outs) >= 2 and rng.random() < 0.12:
            # the correspondence leaves out a cone gate that is still read outside the cone (typically by a gate that
            # is itself listed as an input of the cut): the cone cannot go away; the call has to refuse, and if it
            # returns normally the circuit must be what it was, functionally, and well formed
            ext = net.users()
            cand = [g for g in outs if g not in net.outputs and any(u not in gates for u in ext[g])]
            if cand:
                g0 = rng.choice(cand)
                del out_map[g0]
                self.res.stats.probes.bump('replace_subcircuit-mapping-omits-a-gate-still-used-outside')
        if equivalent and len(leaves) <= 4 and len(outs) <= 2 and len(gates) <= 5 and rng.random() < 0.3 and 'cs' in self.m:
            # the production use: re-synthesise the cone with CircuitFinderSat (SimSAT peer) and splice it in
            synth = self.synthesised_replacement(rng, net, leaves, outs, v_old, mask, taken)
            if synth is not None:
                sub_real, in_map, out_map = synth
                self.res.stats.probes.bump('replace_subcircuit-with-synthesised-cone')
        pre_tt = self.tt_of(net)
        users = net.users()
        shared = any(any(u not in set(gates) for u in users[g]) for g in gates)
        if shared:
            self.res.stats.probes.bump('replace_subcircuit-cone-with-shared-fanout')
        self.ev['call'] = f'#{s.sid}.replace_subcircuit(cone={gates},leaves={leaves},outs={outs},equiv={equivalent})'
        try:
            s.real.replace_subcircuit(sub_real, dict(in_map), dict(out_map))
        except Exception as e:  # noqa
            name = exc_name(e)
            where = innermost_cirbo_frame(e)
            if is_instance_named(e, CIRCUIT_ERRORS):
                self.ev['out'] = f'rejected:{name}'
                self.res.stats.probes.bump('replace_subcircuit-documented-error')
            else:
                self.ev['out'] = f'unexpected:{name}@{where}'
                if equivalent:
                    self.violate('C19', 'replace-subcircuit', f'undocumented-error:{name}@{where}', f'{name}: {e}')
            self.quarantine([s], 'rejected')
            return
        self.ev['out'] = 'ok'
        now, _ = observe.snap(s.real)
        if equivalent and pre_tt is not None:
            post_tt = self.tt_of(now)
            if post_tt is None or len(now.inputs) != len(net.inputs) or post_tt != pre_tt:
                self.violate('C19', 'replace-subcircuit', 'truth-table', 'truth table changed by an equivalent replacement')
            else:
                self.res.stats.probes.bump('replace_subcircuit-function-checked')
        if not equivalent:
            self.res.stats.probes.bump('replace_subcircuit-nonequivalent')
        self.settle([s], also='C19' if equivalent else None)
        if rng.random() < 0.5:
            # the caller still owns the replacement circuit it passed in and keeps using it
            try:
                self.new_slot(sub_real)
                self.res.stats.probes.bump('replacement-circuit-kept-in-population')
            except Exception:
                pass

    def synthesised_replacement(self, rng, net, leaves, outs, v_old, mask, taken):
        k = len(leaves)
        L = 1 << k
        table = [[bool((v_old[g] >> t) & 1) for t in range(L)] for g in outs]
        try:
            fm = self.m['tt'].TruthTableModel(table)
            for N in range(1, 5):
                try:
                    circ = self.m['cs'].CircuitFinderSat(fm, N, basis='FULL').find_circuit()
                    break
                except Exception as e:  # noqa
                    if exc_name(e) != 'NoSolutionError':
                        return None
            else:
                return None
            if len(set(circ.outputs)) != len(circ.outputs):
                return None
            # fresh labels for everything (as the production code does before splicing)
            in_map, out_map = {}, {}
            for i, l in enumerate(leaves):
                lab = self._lab(rng, taken)
                circ.rename_gate(str(i), lab)
                in_map[l] = lab
            for g_old, o in zip(outs, list(circ.outputs)):
                lab = self._lab(rng, taken)
                circ.rename_gate(o, lab)
                out_map[g_old] = lab
            for g in [x for x in circ.gates if x not in in_map.values() and x not in out_map.values()]:
                circ.rename_gate(g, self._lab(rng, taken))
            return circ, in_map, out_map
        except Exception:
            return None

    def rewrite(self, rng, sub: Net, taken, keep):
        """One function-preserving local rewrite of the model netlist `sub`."""
        cands = [g for g, (t, ops) in sub.gates.items() if t != 'INPUT']
        if not cands:
            return
        g = rng.choice(cands)
        t, ops = sub.gates[g]
        kind = rng.choice(('swap', 'dneg', 'demorgan', 'buf'))
        if kind == 'swap' and t in SYMMETRIC and len(ops) >= 2:
            l = list(ops)
            rng.shuffle(l)
            sub.gates[g] = (t, tuple(l))
        elif kind in ('dneg', 'buf') and ops:
            i = rng.randrange(len(ops))
            a = self._lab(rng, taken)
            if kind == 'dneg':
                bb = self._lab(rng, taken)
                self._insert_before(sub, g, [(a, ('NOT', (ops[i],))), (bb, ('NOT', (a,)))])
                new_op = bb
            else:
                self._insert_before(sub, g, [(a, ('IFF', (ops[i],)))])
                new_op = a
            l = list(ops)
            l[i] = new_op
            sub.gates[g] = (t, tuple(l))
        elif kind == 'demorgan' and t in ('AND', 'OR') and len(ops) == 2:
            a, bb = self._lab(rng, taken), self._lab(rng, taken)
            self._insert_before(sub, g, [(a, ('NOT', (ops[0],))), (bb, ('NOT', (ops[1],)))])
            sub.gates[g] = ('NOR' if t == 'AND' else 'NAND', (a, bb))

    def _lab(self, rng, taken):
        self.fresh += 1
        lab = f'rw{self.fresh}'
        while lab in taken:
            lab += '_'
        taken.add(lab)
        return lab

    @staticmethod
    def _insert_before(sub: Net, g, items):
        new = {}
        for k, v in sub.gates.items():
            if k == g:
                for a, val in items:
                    new[a] = val
            new[k] = v
        sub.gates = new

    # ------------------------------------------------------------------ bench basis (C14)
    def op_into_bench(self, op, rng):
        s = self.pick(rng, lambda s: len(s.net.gates) > 0)
        if s is None:
            return
        self._into_bench_on(s)

    def op_rebench(self, op, rng):
        """Convert, edit, convert again: after a conversion the label of a rewritten gate is freed (renamed away)
        and used for a new gate of the type it had before, then the circuit is converted a second time."""
        s = self.pick(rng, lambda s: s.net.inputs and any(t in ('LT', 'GT', 'LEQ', 'GEQ', 'ALWAYS_TRUE', 'ALWAYS_FALSE')
                                                          for t, _ in s.net.gates.values()) and len(s.net.gates) < MAX_GATES - 6)
        if s is None:
            return
        before = s.net.copy()
        self._into_bench_on(s)
        rewritten = [g for g, (t, _) in before.gates.items() if t in ('LT', 'GT', 'LEQ', 'GEQ', 'ALWAYS_TRUE', 'ALWAYS_FALSE') and g in s.net.gates]
        if not rewritten:
            return
        g = rng.choice(rewritten)
        t_old = before.gates[g][0]
        away = self.fresh_label(rng, s.net)
        self.call(lambda: s.real.rename_gate(g, away), [s], True, f'#{s.sid}.rename_gate({g!r},{away!r}) [rebench]', family='C19')
        self.settle([s])
        labels = [x for x in s.net.gates]
        ops = gennet.pick_operands(rng, t_old, labels, 2) if t_old not in ('ALWAYS_TRUE', 'ALWAYS_FALSE') else ()
        self.call(lambda: s.real.emplace_gate(g, self.GT[t_old], tuple(ops)), [s], True, f'#{s.sid}.emplace_gate({g!r},{t_old},{list(ops)}) [rebench]')
        self.settle([s])
        if rng.random() < 0.5:
            self.call(lambda: s.real.mark_as_output(g), [s], True, f'#{s.sid}.mark_as_output({g!r}) [rebench]')
            self.settle([s])
        self.res.stats.probes.bump('bench-convert-edit-convert')
        self._into_bench_on(s)

    def _into_bench_on(self, s):
        pre = s.net.copy()
        has_const = any(t in CONST for t, _ in pre.gates.values())
        valid = True if pre.inputs else (False if has_const else None)
        pre_tt = self.tt_of(pre)
        self.call(lambda: s.real.into_bench(), [s], valid, f'#{s.sid}.into_bench()')
        now, nusers = observe.snap(s.real)
        self.judge_bench(pre, pre_tt, now, 'into_bench')
        self.settle([s], also='C14' if pre.inputs else None)

    def judge_bench(self, pre: Net, pre_tt, now: Net, what):
        st = self.res.stats.probes
        if now.inputs != pre.inputs:
            self.violate('C14', 'interface', 'inputs', f'{now.inputs} vs {pre.inputs}')
        if now.outputs != pre.outputs:
            self.violate('C14', 'interface', 'outputs', f'{now.outputs} vs {pre.outputs}')
        left = sorted({t for t, _ in now.gates.values() if t not in BENCH_TYPES})
        if left:
            self.violate('C14', 'basis', ','.join(left), f'gate types {left} remain after {what}')
        if pre_tt is not None:
            try:
                now_tt = self.tt_of(now)
                if now_tt is None:
                    raise ModelError('the converted circuit cannot be interpreted')
                if now_tt != pre_tt:
                    # culprits: rewritten gates whose own function changed although their operands' did not
                    cul = []
                    if len(pre.inputs) <= MAX_INPUTS_TT:
                        lp, _ = pre.all_lanes()
                        ln, _ = now.all_lanes()
                        cul = sorted({pre.gates[g][0] for g in pre.gates if g in ln and ln[g] != lp[g]
                                      and all(ln.get(o) == lp.get(o) for o in pre.gates[g][1])})
                    self.violate('C14', 'truth-table', ','.join(cul)[:60] or 'unknown', f'truth table changed by {what} (gate types at fault: {cul})')
                else:
                    st.bump('bench-conversion-function-checked')
            except ModelError as e:
                self.violate('C14', 'truth-table', 'uninterpretable', str(e))
        # helper gates stay inside every block that contained the rewritten gate
        helpers = [g for g in now.gates if g not in pre.gates]
        if helpers:
            st.bump('bench-helpers-introduced')
        for h in helpers:
            readers = [g for g, (_, ops) in now.gates.items() if h in ops and g in pre.gates]
            for r in readers:
                for name, (bi, bg, bo) in pre.blocks.items():
                    if r in bg:
                        st.bump('bench-helper-in-block-checked')
                        nb = now.blocks.get(name)
                        if nb is None or h not in nb[1]:
                            self.violate('C14', 'blocks', 'helper-outside-block', f'helper {h} for {r} is not in block {name}')
        for g, (t, ops) in pre.gates.items():
            if t in ('GT', 'LT', 'GEQ', 'LEQ') and len(ops) == 2 and ops[0] == ops[1]:
                st.bump('bench-comparison-with-identical-operands')

    def op_graphviz_bench(self, op, rng):
        s = self.pick(rng, lambda s: len(s.net.gates) > 0 and s.net.inputs)
        if s is None:
            return
        # into_graphviz_digraph(as_bench=True) must leave the original untouched
        blocks_ok = True
        sets = [set(b[1]) for b in s.net.blocks.values()]
        for i, a in enumerate(sets):
            for bb in sets[i + 1:]:
                inter = a & bb
                if inter and inter != a and inter != bb:
                    blocks_ok = False
        self.call(lambda: s.real.into_graphviz_digraph(as_bench=True, draw_blocks=False), [s], True,
                  f'#{s.sid}.into_graphviz_digraph(as_bench=True)')
        now, nusers = observe.snap(s.real)
        if not observe.same_view(now, s.net) or nusers != s.users:
            self.violate('C14', 'non-mutating-variant', 'original-changed', 'into_graphviz_digraph(as_bench=True) modified the circuit')
        self.settle([s], with_copy=False)

    # ------------------------------------------------------------------ observers
    def op_observe(self, op, rng):
        """Read the object through cirbo's own evaluators and compare with the model.
        Cross-property observation only (the subject of C01): never a verdict."""
        s = self.pick(rng, lambda s: 0 < len(s.net.inputs) <= 5 and s.net.outputs)
        if s is None:
            return
        self.ev['call'] = f'#{s.sid}.get_truth_table()'
        try:
            tt = s.real.get_truth_table()
            want = s.net.tt()
            got = [sum(1 << j for j, bit in enumerate(row) if bit) for row in tt]
            if got != want:
                self.res.cross.bump('C01:get_truth_table-differs-from-model')
            else:
                self.res.cross.bump('C01:get_truth_table-agrees')
            self.ev['out'] = 'ok'
        except Exception as e:  # noqa
            self.res.cross.bump(f'C01:get_truth_table-raises-{exc_name(e)}')
            self.ev['out'] = 'observe-raised'
