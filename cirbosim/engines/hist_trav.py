"""Op family TRAV (C20): traversals as cooperating tasks.

`top_sort`, `dfs` and `bfs` are generators with user call-backs.  Up to four of them
are in flight on one circuit; a seeded scheduler decides which one is resumed next.
Faults: a consumer abandons its generator, a hook is re-entrant (runs a complete
traversal of the same circuit from inside the hook), a hook raises.  Each completed
task is judged on its own predicates, whatever else was resumed in between.
"""
from __future__ import annotations

import random

from .. import gennet, observe
from ..refnet import ALL_TYPES, ModelError, Net
from ..util import digest, weighted_choice
from .base import exc_name, innermost_cirbo_frame
from .hist import Hist


class _HookBoom(Exception):
    pass


class Task:
    def __init__(self, tid, kind, inverse, start, hooks, topsort_unvisited):
        self.tid, self.kind, self.inverse, self.start = tid, kind, inverse, start
        self.hooks, self.topsort_unvisited = hooks, topsort_unvisited
        self.events = []  # (seq, what, label)
        self.yields = []
        self.state = 'alive'  # alive | done | abandoned | hook-raised | error
        self.gen = None
        self.hook_calls = 0
        self.reentrant_at = None
        self.raise_at = None
        self.abandon_at = None

    def desc(self):
        return (f'{self.kind}(start={self.start}, inverse={self.inverse}, hooks={sorted(self.hooks)}, '
                f'topsort_unvisited={self.topsort_unvisited})')


class HistTrav(Hist):
    def op_traverse(self, op, rng):
        st = self.res.stats.probes
        cyclic = rng.random() < 0.08
        if cyclic:
            return self.cycle_case(op, rng)
        big = None
        if rng.random() < 0.004:
            # a circuit of well over a thousand gates (work lists, recursion depths and counters of that size)
            bnet = gennet.random_net(rng, rng.randint(4, 10), rng.randint(1100, 1800), [t for t in ALL_TYPES if t != 'INPUT'], 3, 'plain',
                                     n_outputs=rng.randint(1, 4), locality=rng.choice((0.3, 0.6, 0.9)))
            try:
                big = self.new_slot(observe.build_real(self.Circuit, self.GT, bnet))
                st.bump('traversal-of-a-circuit-with-more-than-a-thousand-gates')
            except Exception:  # noqa
                big = None
        s = big or self.pick(rng, lambda s: s.net.gates and s.net.is_acyclic())
        if s is None:
            return
        try:
            return self._traverse_slot(s, op, rng)
        finally:
            if big is not None and big in self.pop:
                self.pop.remove(big)

    def _traverse_slot(self, s, op, rng):
        st = self.res.stats.probes
        net, real = self.reread(s), s.real
        labels = list(net.gates)
        ntasks = weighted_choice(rng, [(1, 2), (2, 4), (3, 3), (4, 2)])
        if len(labels) > 500:
            ntasks = 1
        self.seq = 0
        tasks = []
        faults = {f['at']: f['kind'] for f in op.get('f', ())}
        for tid in range(ntasks):
            kind = weighted_choice(rng, [('top_sort', 2), ('dfs', 5), ('bfs', 4)])
            inverse = rng.random() < 0.5
            mode = weighted_choice(rng, [('default', 3), ('some', 5), ('repeats', 1), ('empty', 1), ('all', 1), ('own', 1)])
            if mode == 'default' or kind == 'top_sort':
                start = None
            elif mode == 'some':
                start = rng.sample(labels, rng.randint(1, min(3, len(labels))))
            elif mode == 'repeats':
                x = rng.choice(labels)
                start = [x, rng.choice(labels), x]
            elif mode == 'empty':
                start = []
            elif mode == 'own':
                # the circuit's own list objects as the start set: dfs(c.outputs), bfs(c.inputs, inverse=True)
                start = real.inputs if rng.random() < 0.5 else real.outputs
                self.res.stats.probes.bump('traversal-start-set-is-the-circuits-own-list')
            else:
                start = list(labels)
                rng.shuffle(start)
            if type(start) is list and start is not real.inputs and start is not real.outputs and rng.random() < 0.2:
                start = tuple(start)
            hooks = set()
            if kind != 'top_sort':
                for h in ('enter', 'discover', 'exit', 'unvisited', 'end'):
                    if rng.random() < 0.6 and not (h == 'exit' and kind == 'bfs'):
                        hooks.add(h)
            t = Task(tid, kind, inverse, start, hooks, rng.random() < 0.5)
            fk = faults.get(f'task#{tid + 1}')
            if fk == 'abandon':
                t.abandon_at = rng.randint(0, max(1, len(labels) // 2))
            elif fk == 'hook-reentrant' and hooks:
                t.reentrant_at = rng.randint(1, 4)
            elif fk == 'hook-raises' and hooks:
                t.raise_at = rng.randint(1, 4)
            tasks.append(t)
            t.gen = self._make_gen(real, t)
        self.ev['call'] = f'#{s.sid}: ' + ' || '.join(t.desc() for t in tasks)
        cap = 3 * len(labels) + 3
        order = []
        alive = list(tasks)
        while alive:
            t = alive[rng.randrange(len(alive))]
            order.append(t.tid)
            if t.abandon_at is not None and len(t.yields) >= t.abandon_at:
                try:
                    t.gen.close()
                except Exception:
                    pass
                t.state = 'abandoned'
                self.res.stats.fired.bump('task:abandon')
                alive.remove(t)
                continue
            try:
                g = next(t.gen)
                t.yields.append(g.label)
                self.seq += 1
                t.events.append((self.seq, 'yield', g.label))
                if len(t.yields) > cap:
                    t.state = 'error'
                    self.violate('C20', 'termination', f'{t.kind}:yield-cap', f'{t.desc()} yielded more than {cap} gates')
                    alive.remove(t)
            except StopIteration:
                t.state = 'done'
                alive.remove(t)
            except _HookBoom:
                t.state = 'hook-raised'
                alive.remove(t)
            except Exception as e:  # noqa
                t.state = 'error'
                where = innermost_cirbo_frame(e)
                self.violate('C20', 'traversal-raised', f'{t.kind}:{exc_name(e)}@{where}', f'{t.desc()} raised {exc_name(e)}: {e}')
                alive.remove(t)
        self.ev['schedule'] = ''.join(str(x) for x in order)
        self.ev['out'] = 'ok'
        for t in tasks:
            if t.state == 'done':
                self.judge_task(net, t)
                st.bump(f'task-completed:{t.kind}')
            else:
                st.bump(f'task-{t.state}')
                if t.state in ('abandoned', 'hook-raised'):
                    self.judge_partial(net, t)
        if ntasks > 1:
            st.bump('interleaved-traversals')
        self.res.states.add('sched:' + digest([(t.kind, t.inverse) for t in tasks] + order))
        # the circuit must be untouched by traversing it
        now, nusers = observe.snap(real)
        if not observe.same_view(now, net) or nusers != s.users:
            self.violate('C20', 'traversal-mutated-circuit', 'changed', 'the circuit changed while being traversed')

    def _make_gen(self, real, t: Task):
        eng = self

        peek = list(real.gates)[:: max(1, len(real.gates) // 4)] if t.tid % 2 == 0 else []

        def fire(what, label, states=None):
            eng.seq += 1
            t.events.append((eng.seq, what, label))
            t.hook_calls += 1
            if states is not None and peek:
                # hooks are handed the state map and may look at any gate's state (reading must not change anything)
                for lab in peek:
                    _ = states[lab]
            if t.raise_at is not None and t.hook_calls == t.raise_at:
                eng.res.stats.fired.bump('task:hook-raises')
                raise _HookBoom()
            if t.reentrant_at is not None and t.hook_calls == t.reentrant_at:
                eng.res.stats.fired.bump('task:hook-reentrant')
                # a complete traversal of the same circuit from inside the hook
                for _ in real.dfs(inverse=not t.inverse):
                    pass
                for _ in real.top_sort(inverse=t.inverse):
                    pass

        if t.kind == 'top_sort':
            return iter(real.top_sort(inverse=t.inverse))
        kw = {'inverse': t.inverse, 'topsort_unvisited': t.topsort_unvisited}
        if 'enter' in t.hooks:
            kw['on_enter_hook'] = lambda g, states: fire('enter', g.label, states)
        if 'discover' in t.hooks:
            kw['on_discover_hook'] = lambda g, states: fire('discover', g.label, states)
        if 'exit' in t.hooks and t.kind == 'dfs':
            kw['on_exit_hook'] = lambda g, states: fire('exit', g.label, states)
        if 'unvisited' in t.hooks:
            kw['unvisited_hook'] = lambda g, states: fire('unvisited', g.label)
        if 'end' in t.hooks:
            kw['on_traversal_end_hook'] = lambda states: fire('end', None)
        fn = real.dfs if t.kind == 'dfs' else real.bfs
        return iter(fn(t.start, **kw))

    def judge_partial(self, net: Net, t: Task):
        """A traversal that was cut short (consumer gone, hook raised) has said less, never something wrong:
        what it yielded is reachable and not repeated, and whatever reached the unvisited hook is unreachable."""
        V = lambda oracle, disc, msg: self.violate('C20', oracle, f'{t.kind}:{disc}', f'{t.desc()} [{t.state}]: {msg}')
        if t.kind == 'top_sort':
            return
        start = t.start
        if start is None:
            start = list(net.inputs) if t.inverse else list(net.outputs)
        want = net.reach(start, inverse=t.inverse)
        if len(set(t.yields)) != len(t.yields):
            return V('reachability', 'gate-yielded-twice', f'{[g for g in t.yields if t.yields.count(g) > 1][:3]}')
        if not set(t.yields) <= want:
            return V('reachability', 'wrong-set', f'extra {sorted(set(t.yields) - want)[:3]}')
        unv = [l for _, w, l in t.events if w == 'unvisited']
        bad = [l for l in unv if l in want]
        if bad:
            return V('hooks', 'unvisited-got-reachable-gate', f'the unvisited hook received {bad[:3]}, reachable from the start set')
        self.res.stats.probes.bump('partial-traversal-judged')

    def judge_task(self, net: Net, t: Task):
        V = lambda oracle, disc, msg: self.violate('C20', oracle, f'{t.kind}:{disc}', f'{t.desc()}: {msg}')
        gates = set(net.gates)
        if t.kind == 'top_sort':
            if sorted(t.yields) != sorted(gates):
                return V('top_sort', 'coverage', f'yielded {len(t.yields)} of {len(gates)} gates ({len(set(t.yields))} distinct)')
            pos = {g: i for i, g in enumerate(t.yields)}
            for g, (_, ops) in net.gates.items():
                for o in ops:
                    if (pos[o] > pos[g]) if t.inverse else (pos[o] < pos[g]):
                        return V('top_sort', 'order', f'{g} vs operand {o} (inverse={t.inverse})')
            return
        start = t.start
        if start is None:
            start = list(net.inputs) if t.inverse else list(net.outputs)
        want = net.reach(start, inverse=t.inverse)
        if len(set(t.yields)) != len(t.yields):
            return V('reachability', 'gate-yielded-twice', f'{[g for g in t.yields if t.yields.count(g) > 1][:3]}')
        if set(t.yields) != want:
            return V('reachability', 'wrong-set', f'missing {sorted(want - set(t.yields))[:3]} extra {sorted(set(t.yields) - want)[:3]}')
        ev = t.events
        if 'enter' in t.hooks:
            entered = [l for _, w, l in ev if w == 'enter']
            if sorted(entered) != sorted(want):
                return V('hooks', 'enter-set', 'enter hook did not fire exactly once per reached gate')
        if t.kind == 'dfs' and 'exit' in t.hooks:
            exit_pos = {}
            for i, (_, w, l) in enumerate(ev):
                if w == 'exit':
                    if l in exit_pos:
                        return V('hooks', 'exit-twice', f'{l}')
                    exit_pos[l] = i
            if set(exit_pos) != want:
                return V('hooks', 'exit-set', f'exit hook fired for {len(exit_pos)} of {len(want)} reached gates')
            if 'enter' in t.hooks:
                enter_pos = {l: i for i, (_, w, l) in enumerate(ev) if w == 'enter'}
                for g in want:
                    if enter_pos[g] > exit_pos[g]:
                        return V('hooks', 'exit-before-enter', f'{g}')
            users = net.users()
            for g in want:
                succ = users[g] if t.inverse else [o for o in net.gates[g][1]]
                for c in succ:
                    if c in exit_pos and exit_pos[c] > exit_pos[g]:
                        return V('hooks', 'post-order', f'{g} exited before its successor {c}')
        if 'unvisited' in t.hooks:
            unv = [l for _, w, l in ev if w == 'unvisited']
            if sorted(unv) != sorted(gates - want):
                return V('hooks', 'unvisited-set', f'unvisited hook got {len(unv)} gates, complement has {len(gates - want)}')
            if t.topsort_unvisited:
                pos = {g: i for i, g in enumerate(unv)}
                for g in unv:
                    for o in net.gates[g][1]:
                        if o in pos and pos[o] > pos[g]:
                            return V('hooks', 'unvisited-order', f'{g} reported before its operand {o}')
        if 'end' in t.hooks:
            ends = [i for i, (_, w, _) in enumerate(ev) if w == 'end']
            if len(ends) != 1 or ends[0] != len(ev) - 1:
                return V('hooks', 'end-hook', f'on_traversal_end fired {len(ends)} times / not last')

    # ------------------------------------------------------------------ cycle check
    def cycle_case(self, op, rng):
        types = [t for t in ALL_TYPES if t not in ('INPUT', 'ALWAYS_TRUE', 'ALWAYS_FALSE')]
        net = gennet.random_net(rng, rng.randint(1, 4), rng.randint(2, 10), types, 3, 'plain', n_outputs=rng.choice((1, 2)))
        non_in = [g for g in net.gates if net.gates[g][0] != 'INPUT']
        if not non_in or not net.outputs:
            return
        # add back edges: replace an operand of an early gate by a later gate
        for _ in range(rng.randint(0, 2)):
            a = rng.choice(non_in)
            b = rng.choice(non_in)
            t, ops = net.gates[a]
            if not ops:
                continue
            l = list(ops)
            l[rng.randrange(len(l))] = b
            net.gates[a] = (t, tuple(l))
        text = gennet.shuffled_bench(rng, net)
        self.ev['call'] = 'check_circuit_has_no_cycles(from_bench_string(<possibly cyclic netlist>))'
        try:
            real = self.Circuit.from_bench_string(text)
        except Exception as e:  # noqa
            self.ev['out'] = f'parse-raised:{exc_name(e)}'
            return
        want = net.cycle_reachable_from(net.outputs)
        check = self.m['validation'].check_circuit_has_no_cycles
        raised = None
        try:
            check(real)
        except Exception as e:  # noqa
            raised = e
        self.ev['out'] = 'ok'
        st = self.res.stats.probes
        if raised is not None and exc_name(raised) != 'CircuitValidationError':
            self.violate('C20', 'cycle-check', f'raised:{exc_name(raised)}', f'{exc_name(raised)}: {raised}')
        elif want and raised is None:
            self.violate('C20', 'cycle-check', 'cycle-missed', 'a cycle is reachable from the outputs but the check passed')
        elif not want and raised is not None:
            self.violate('C20', 'cycle-check', 'false-cycle', 'no cycle is reachable from the outputs but the check raised')
        else:
            st.bump('cycle-check:' + ('cyclic-detected' if want else 'acyclic-from-outputs-passed'))
            if not want and not net.is_acyclic():
                st.bump('cycle-check:cycle-only-in-dead-logic')
        self.res.states.add('cyc:' + net.shape_digest() if net.is_acyclic() else 'cyc:' + net.digest())
