"""HIST op family `gadget`: arithmetic and gadget generators applied to operand gates
of live host circuits (properties C07, C08, C09).

Every generator is described by a small spec: how to draw its parameters, how to call
it, and the arithmetic identity its result must satisfy lane by lane.  Operand values
are read from the model's lane vectors of the operand *gates* (primary inputs and
internal gates mixed), so the identity is checked on whatever function those gates
compute in the host.
"""
from __future__ import annotations

import math
import random

from .. import observe
from ..refnet import ModelError, Net, var_lanes
from ..util import weighted_choice
from .base import exc_name, innermost_cirbo_frame
from .hist import MAX_GATES, Hist, Quarantine

EXH_INPUTS = 11  # hosts with at most this many inputs are evaluated on all 2^n lanes
SAMPLE_LANES = 768


def lane_assign(inputs, rng: random.Random):
    """Lane vectors for the host's inputs: exhaustive for small hosts, otherwise seeded
    random lanes plus corner lanes (all-0, all-1, single-1, single-0)."""
    n = len(inputs)
    if n <= EXH_INPUTS:
        L = 1 << n
        return {x: var_lanes(i, n) for i, x in enumerate(inputs)}, (1 << L) - 1, L, True
    L = SAMPLE_LANES
    assign = {}
    for i, x in enumerate(inputs):
        v = rng.getrandbits(L)
        v &= ~1  # lane 0: all zero
        v |= 2  # lane 1: all one
        assign[x] = v
    # single-1 / single-0 lanes
    lane = 2
    for i, x in enumerate(inputs):
        if lane + 1 >= min(L, 2 + 2 * 60):
            break
        for y in inputs:
            assign[y] &= ~(1 << lane)
            assign[y] |= 1 << (lane + 1)
        assign[x] |= 1 << lane
        assign[x] &= ~(1 << (lane + 1))
        lane += 2
    return assign, (1 << L) - 1, L, False


def float_round(v: int) -> int:
    try:
        return int(float(v))
    except OverflowError:
        return v


def decode(vecs, L):
    """vecs: lane vectors of bits, least significant first -> list of L integers."""
    out = [0] * L
    for i, v in enumerate(vecs):
        j = 0
        while v:
            if v & 1:
                out[j] |= 1 << i
            v >>= 1
            j += 1
    return out


class G:
    """One generator spec."""

    def __init__(self, prop, name, plan, weight=1.0):
        self.prop, self.name, self.plan, self.weight = prop, name, plan, weight


def _le(labels, big):
    return list(reversed(labels)) if big else list(labels)


class HistArith(Hist):
    # ------------------------------------------------------------------ op
    def op_gadget(self, op, rng):
        table = [g for g in self.gadgets() if g.prop == self.prop] or self.gadgets()
        g = weighted_choice(rng, [(x, x.weight) for x in table])
        spec = g.plan(self, rng)
        if spec is None:
            return
        self.ev['gadget'] = g.name
        self.arg_shape = 'list'
        if spec.get('front') == 'generate':
            return self.run_generate(g, spec, rng)
        return self.run_add(g, spec, rng)

    # ----- "generate_*" front ends: fresh host, operands are its inputs
    def run_generate(self, g, spec, rng):
        self.ev['call'] = spec['desc']
        self.ev['valid'] = True
        try:
            real = spec['call']()
        except Exception as e:  # noqa
            where = innermost_cirbo_frame(e)
            self.ev['out'] = f'unexpected:{exc_name(e)}@{where}'
            self.violate(g.prop, 'valid-call-raised', f'{g.name}:{exc_name(e)}@{where}', f"{spec['desc']}: {exc_name(e)}: {e}")
            return
        self.ev['out'] = 'ok'
        net, users = observe.snap(real)
        assign, mask, L, exh = lane_assign(net.inputs, rng)
        try:
            val = net.lanes(assign, mask)
        except ModelError as e:
            self.violate(g.prop, 'value', f'{g.name}:uninterpretable', str(e))
            return
        groups = spec['in_groups'](net)  # lists of input labels, least significant first
        outs = spec['out_groups'](net)
        self.judge_value(g, spec, [[val[x] for x in grp] for grp in groups], [[val[x] for x in grp] for grp in outs], L, mask)
        self.judge_extra(g, spec, Net(), net, [x for grp in outs for x in grp])
        if len(net.gates) <= MAX_GATES:
            s = self.new_slot(real)
            self.settle([s], with_copy=False)

    # ----- "add_*" forms on a live host
    def run_add(self, g, spec, rng):
        need = spec['need']  # number of distinct operand gates
        host = None
        if rng.random() < 0.7:
            host = self.pick(rng, lambda s: len(s.net.gates) >= need and len(s.net.gates) + spec.get('cost', 40) <= 4000
                             and s.net.is_acyclic())
        if host is None and rng.random() < 0.15:
            from ..legacy import artifacts

            texts = artifacts()
            if texts:
                try:
                    real0 = self.Circuit.from_bench_string(texts[rng.randrange(len(texts))])
                    if len(real0.gates) >= need:
                        host = self.new_slot(real0)
                        self.res.stats.probes.bump('gadget-on-circuit-saved-by-an-earlier-session')
                except Exception:
                    host = None
        if host is None:
            extra = rng.randint(0, 3) if need <= 10 else 0
            net0 = self.fresh_host(rng, need, extra)
            real0 = observe.build_real(self.Circuit, self.GT, net0)
            host = self.new_slot(real0)
            self.res.stats.probes.bump('gadget-on-fresh-host')
        else:
            self.res.stats.probes.bump('gadget-on-live-host')
        pre = host.net.copy()
        labels = list(pre.gates)
        if need > len(labels):
            return
        if spec.get('inputs_only'):
            if len(pre.inputs) < need:
                return
            chosen = rng.sample(pre.inputs, need)
        else:
            chosen = rng.sample(labels, need)
            if need >= 2 and rng.random() < 0.12 and not spec.get('distinct_operands'):
                # the same gate feeds two operand positions (the identities are about operand *values*)
                i, j = rng.sample(range(need), 2)
                chosen[j] = chosen[i]
                self.res.stats.probes.bump('gadget-operand-gate-repeated')
        if any(pre.gates[x][0] != 'INPUT' for x in chosen):
            self.res.stats.probes.bump('gadget-operands-include-internal-gates')
        if need == len(pre.inputs) and need > 0 and rng.random() < 0.35:
            # the caller hands over the circuit's own (live) input list, as generate_* front ends do
            chosen = host.real.inputs
            self.res.stats.probes.bump('gadget-operands-are-the-live-input-list')
        if chosen and chosen is not host.real.inputs and rng.random() < 0.08:
            # an operand gate with an unusual but legal label (Label is any str): empty, blank, or spelled like a
            # placeholder the generators use internally
            odd = rng.choice(('', '', '', ' ', 'inf_label', '_PLACEHOLDER_STR_', 'None', '0', 'new_0'))
            x = chosen[rng.choice((0, -1, rng.randrange(len(chosen))))]
            if odd not in pre.gates:
                try:
                    host.real.rename_gate(x, odd)
                    chosen = [odd if c == x else c for c in chosen]
                    pre, _ = observe.snap(host.real)
                    self.res.stats.probes.bump('gadget-operand-gate-with-unusual-label')
                except Exception:  # noqa
                    pass
        if chosen and chosen is not host.real.inputs and not spec.get('inputs_only') and rng.random() < 0.05:
            # the caller declares its operand gates to be the circuit outputs and passes c.outputs itself
            try:
                host.real.set_outputs(list(chosen))
                chosen = host.real.outputs
                pre, _ = observe.snap(host.real)
                self.res.stats.probes.bump('gadget-operands-are-the-live-output-list')
            except Exception:  # noqa
                pass
        operands_snapshot = list(chosen)
        self.arg_shape = weighted_choice(rng, [('list', 12), ('tuple', 3), ('iterator', 3), ('generator', 2)])
        # now and then a call that has to be refused (an operand label that names no gate, a result label that is taken):
        # whatever it raises, the statement about the frame is unconditional - pre-existing gates stay, with their function
        self.taken_label = self.taken_label_used = None
        refuse = None
        if chosen and chosen is not host.real.inputs and chosen is not host.real.outputs and rng.random() < 0.05:
            refuse = rng.choice(('result-label-taken', 'operand-missing'))
            if refuse == 'result-label-taken':
                u = pre.users()
                dangling = [x for x in pre.gates if not u.get(x)]
                self.taken_label = rng.choice(dangling or list(pre.gates))
        call, desc = spec['bind'](host.real, chosen)
        if refuse == 'result-label-taken' and not self.taken_label_used:
            refuse = 'operand-missing'
        if refuse == 'operand-missing':
            bad = list(chosen)
            bad[rng.randrange(len(bad))] = '__absent__'
            call, desc = spec['bind'](host.real, bad)
        if refuse:
            self.ev['call'] = f'#{host.sid}.{desc} [{refuse}: has to be refused]'
            self.ev['valid'] = False
            raised = None
            try:
                call()
            except Exception as e:  # noqa
                raised = e
            self.res.stats.probes.bump(f'gadget-call-to-be-refused:{refuse}:{"raised" if raised is not None else "accepted"}')
            self.ev['out'] = f'rejected:{exc_name(raised)}' if raised is not None else 'accepted-invalid'
            if raised is not None:
                self.judge_frame_after_refusal(g, host, pre, rng, refuse)
            self.quarantine([host], 'rejected')
            return
        self.ev['call'] = f'#{host.sid}.{desc}' + ('' if self.arg_shape == 'list' else f' [operand lists passed as {self.arg_shape}]') \
            + (' [operands are c.outputs itself]' if chosen is host.real.outputs else '')
        self.ev['valid'] = True
        repeat = (not spec.get('no_repeat')) and rng.random() < 0.16
        edit = None
        if repeat and rng.random() < 0.55:
            edit = rng.choice(('rename-new-gates', 'remove-dangling-new-gates', 'operand-label-reused-for-another-gate'))
            if edit.startswith('operand') and (spec.get('inputs_only') or chosen is host.real.inputs or chosen is host.real.outputs):
                edit = 'rename-new-gates'
        try:
            rv = call()
            if repeat:
                # the caller applies the same generator to the same operand list objects once more
                if edit is not None:
                    # ... after editing the host in between: what the first call left behind is renamed or removed, or an
                    # operand *label* now names another gate.  The second call is judged against the host as it then is.
                    done = self.edit_between_calls(host, pre, operands_snapshot, edit, rng)
                    if done:
                        pre, _ = observe.snap(host.real)
                        self.ev['call'] += f' [then {done}]'
                        self.res.stats.probes.bump(f'gadget-host-edited-between-calls:{edit}')
                rv = call()
                spec = dict(spec)
                spec.pop('bound_kind', None)
                self.ev['call'] += ' [called twice]'
                self.res.stats.probes.bump('gadget-called-twice-with-the-same-lists')
        except Exception as e:  # noqa
            where = innermost_cirbo_frame(e)
            self.ev['out'] = f'unexpected:{exc_name(e)}@{where}'
            self.violate(g.prop, 'valid-call-raised', f'{g.name}:{exc_name(e)}@{where}', f'{desc}: {exc_name(e)}: {e}')
            self.quarantine([host], 'unexpected')
            return
        self.ev['out'] = 'ok'
        try:
            now, _ = observe.snap(host.real)
        except Exception as e:  # noqa
            self.violate(g.prop, 'frame', f'{g.name}:view-unreadable', str(e))
            self.quarantine([host], 'unexpected')
            return
        nviol = len(self.res.violations)
        assign, mask, L, exh = lane_assign(pre.inputs, rng)
        plant = spec.get('plant')
        if plant and not exh and len(set(operands_snapshot)) == len(operands_snapshot) \
                and all(pre.gates.get(x, ('',))[0] == 'INPUT' for x in operands_snapshot):
            # operand values that random rows never hit (a comparison with a constant is true on one value only): the last
            # lanes carry them.  `plant` yields one integer per planted lane, least significant operand gate first.
            grp = spec['operands'](operands_snapshot)[0]
            for k, value in enumerate(plant[: 16]):
                lane = L - 1 - k
                for i, x in enumerate(grp):
                    if (value >> i) & 1:
                        assign[x] |= 1 << lane
                    else:
                        assign[x] &= ~(1 << lane)
            self.res.stats.probes.bump('operand-values-planted-in-sampled-rows')
        try:
            pre_val = pre.lanes(assign, mask)
        except ModelError:
            return
        # frame: inputs as a set, pre-existing gates keep their function
        if sorted(now.inputs) != sorted(pre.inputs):
            self.violate(g.prop, 'frame', f'{g.name}:inputs', f'inputs {now.inputs} vs {pre.inputs}')
        elif now.inputs != pre.inputs and g.name != 'add_plus_one':
            # (add_plus_one documents that it moves its operand inputs to the front)
            self.violate(g.prop, 'frame', f'{g.name}:input-order', f'input order changed: {now.inputs} vs {pre.inputs}')
        try:
            now_val = now.lanes({x: assign[x] for x in pre.inputs if x in now.gates}, mask)
        except ModelError as e:
            self.violate(g.prop, 'frame', f'{g.name}:uninterpretable', str(e))
            self.quarantine([host], 'unexpected')
            return
        for x in pre.gates:
            if x not in now.gates:
                self.violate(g.prop, 'frame', f'{g.name}:gate-removed', f'pre-existing gate {x} disappeared')
                break
            if now_val[x] != pre_val[x]:
                self.violate(g.prop, 'frame', f'{g.name}:function-changed', f'function of pre-existing gate {x} changed')
                break
        res_groups = spec['results'](rv)  # lists of labels, least significant first
        flat = [x for grp in res_groups for x in grp]
        missing = [x for x in flat if x not in now.gates]
        if missing:
            self.violate(g.prop, 'value', f'{g.name}:result-label-missing', f'returned labels {missing[:3]} are not gates of the host')
        else:
            in_groups = spec['operands'](operands_snapshot)
            self.judge_value(g, spec, [[pre_val[x] for x in grp] for grp in in_groups],
                             [[now_val[x] for x in grp] for grp in res_groups], L, mask)
        self.judge_extra(g, spec, pre, now, flat)
        if len(self.res.violations) > nviol:
            self.ev['out'] = 'violation'
            self.quarantine([host], 'violation')
            return
        self.settle([host], with_copy=False)

    def judge_frame_after_refusal(self, g, host, pre, rng, refuse):
        try:
            now, _ = observe.snap(host.real)
        except Exception as e:  # noqa
            self.violate(g.prop, 'frame', f'{g.name}:view-unreadable:after-refused-call', str(e))
            return
        gone = [x for x in pre.gates if x not in now.gates]
        if gone:
            self.violate(g.prop, 'frame', f'{g.name}:gate-removed:after-refused-call',
                         f'the call was refused ({refuse}) and pre-existing gates {gone[:3]} are gone')
            return
        changed = [x for x in pre.gates if now.gates[x] != pre.gates[x]]
        if changed:
            # a different definition is only a problem if the function differs
            assign, mask, L, exh = lane_assign(pre.inputs, rng)
            try:
                pv = pre.lanes(assign, mask)
                nv = now.lanes({x: assign[x] for x in pre.inputs if x in now.gates and now.gates[x][0] == 'INPUT'}, mask)
            except ModelError:
                return
            bad = [x for x in changed if nv.get(x) != pv.get(x)]
            if bad:
                self.violate(g.prop, 'frame', f'{g.name}:function-changed:after-refused-call',
                             f'the call was refused ({refuse}) and the function of pre-existing gates {bad[:3]} changed')
                return
        self.res.stats.probes.bump('frame-checked-after-refused-call')

    def edit_between_calls(self, host, pre, operands, edit, rng):
        real = host.real
        try:
            now, users = observe.snap(real)
            new = [x for x in now.gates if x not in pre.gates]
            if edit == 'rename-new-gates':
                if not new:
                    return None
                picked = rng.sample(new, max(1, len(new) // 2))
                for i, x in enumerate(picked):
                    real.rename_gate(x, f'rn{self.opi}_{i}')
                return f'renamed {len(picked)} of the {len(new)} gates the first call added'
            if edit == 'remove-dangling-new-gates':
                removed = 0
                for _ in range(6):
                    now, users = observe.snap(real)
                    dangling = [x for x in now.gates if x not in pre.gates and not users.get(x) and x not in now.outputs]
                    if not dangling:
                        break
                    for x in dangling:
                        real.remove_gate(x)
                        removed += 1
                return f'removed {removed} unused gates the first call added' if removed else None
            # the label of an operand is given to a different gate: x -> x_was, then a new gate called x
            x = rng.choice(list(dict.fromkeys(operands)))
            was = f'{x}_was{self.opi}'
            if was in now.gates:
                return None
            real.rename_gate(x, was)
            others = [g for g in now.gates if g != x]
            if others and rng.random() < 0.5:
                real.emplace_gate(x, self.GT['AND'], (was, rng.choice(others)))
            else:
                real.emplace_gate(x, self.GT['NOT'], (was,))
            return f'renamed operand gate {x!r} to {was!r} and created another gate labelled {x!r}'
        except Exception as e:  # noqa
            self.res.stats.probes.bump(f'gadget-edit-between-calls-refused:{exc_name(e)}')
            return None

    def fresh_host(self, rng, need, extra):
        """bare circuit with `need` inputs, optionally a few gates on top so that
        operands can be internal gates."""
        from .. import gennet

        n_in = need if extra == 0 else max(1, min(need, rng.randint(2, 6)))
        n_g = 0 if extra == 0 else need - n_in + extra
        net = gennet.random_net(rng, n_in, max(n_g, 0), self.types(), 2, 'digits', n_outputs=rng.choice((0, 1)))
        if len(net.gates) < need:
            net = gennet.random_net(rng, need, 0, self.types(), 2, 'digits', n_outputs=0)
        return net

    # ------------------------------------------------------------------ judging
    def judge_value(self, g, spec, in_vecs, out_vecs, L, mask):
        ins = [decode(v, L) for v in in_vecs]
        outs = [decode(v, L) for v in out_vecs]
        why = spec['check'](ins, outs, L)
        if why:
            self.violate(g.prop, 'value', f'{g.name}:{why[0]}', why[1])
        else:
            self.res.stats.probes.bump(f'value-checked:{g.name}')
        for k, fn in (spec.get('also') or {}).items():
            w = fn(ins, outs, L)
            if w:
                self.violate(g.prop, k, f'{g.name}:{w[0]}', w[1])

    def judge_extra(self, g, spec, pre: Net, now: Net, result_labels):
        new = [x for x in now.gates if x not in pre.gates and now.gates[x][0] != 'INPUT']
        basis = spec.get('basis')
        if basis is not None:
            types = sorted({now.gates[x][0] for x in new})
            if basis == 'AIG' and any(t in ('XOR', 'NXOR') for t in types):
                self.violate(g.prop, 'basis', f'{g.name}:xor-in-AIG:{spec.get("basis_spelling")}',
                             f'requested basis AIG (given as {spec.get("basis_spelling")!r}) but new gates have types {types}')
        kind = spec.get('bound_kind')
        if kind is not None and basis is not None:
            n_bits, m_bits = spec['_n'], len(result_labels)
            if basis == 'AIG':
                bound = 7 * n_bits - 3 * m_bits
            elif kind == 'eff':
                bound = 4.5 * n_bits - 2 * m_bits
            else:
                bound = 5 * n_bits - 2 * m_bits  # the weaker of the two figures the naive variant documents
            if len(new) > bound + 1e-9:
                self.violate(g.prop, 'gate-count', f'{g.name}:{basis}', f'{len(new)} new gates for n={n_bits}, m={m_bits}; documented bound {bound}')
            else:
                self.res.stats.probes.bump('gate-count-bound-checked')
        marking = spec['marking_fn']() if 'marking_fn' in spec else None
        if marking is not None and pre.gates:
            asked, labels = marking
            want = sorted(pre.outputs + (list(labels) if asked else []))
            if sorted(now.outputs) != want:
                self.violate(g.prop, 'outputs', f'{g.name}:{"asked" if asked else "not-asked"}',
                             f'outputs {now.outputs} after the call; before {pre.outputs}; marking requested: {asked}')
        elif pre.gates and spec.get('front') != 'generate':
            if now.outputs != pre.outputs:
                self.violate(g.prop, 'outputs', f'{g.name}:changed', f'outputs {now.outputs} vs {pre.outputs}')
        if any(x == '_PLACEHOLDER_STR_' for x in result_labels) and '_PLACEHOLDER_STR_' not in pre.gates:
            self.violate(g.prop, 'value', f'{g.name}:placeholder-returned', 'a placeholder string was returned as a result label')

    # ------------------------------------------------------------------ specs
    def gadgets(self):
        if getattr(self, '_gadgets', None) is None:
            self._gadgets = build_specs(self)
        return self._gadgets


# =====================================================================================
def _basis_arg(eng, rng):
    GB = eng.m['gen'].GenerationBasis
    b = rng.choice(('XAIG', 'AIG'))
    sp = rng.choice(('enum', 'enum', 'upper', 'lower', 'mixed'))
    if sp == 'enum':
        return b, getattr(GB, b), 'enum'
    s = {'upper': b, 'lower': b.lower(), 'mixed': b.capitalize()}[sp]
    return b, s, f'str:{s}'


class _ShapedArgs:
    """The arithmetic `add_*` functions declare their operands as `Iterable[Label]`.  Seen through this proxy, every
    list the harness passes is handed over in the shape the current op has drawn: the list itself, a tuple, a one-shot
    iterator or a generator (made anew for every call, as a caller writing `zip(...)`/`map(...)` inline would)."""

    def __init__(self, mod, eng):
        self._mod = mod
        self._eng = eng

    def __getattr__(self, name):
        fn = getattr(self._mod, name)
        if not callable(fn) or not name.startswith('add_'):
            return fn
        eng = self._eng
        import inspect

        try:
            params = list(inspect.signature(fn).parameters.values())[1:]
        except (TypeError, ValueError):
            return fn
        # only parameters the library itself declares as Iterable take part
        iterable_pos = [('Iterable' in str(p.annotation)) for p in params]

        def shaped(host, *args, **kw):
            shape = getattr(eng, 'arg_shape', 'list')
            if shape == 'list':
                return fn(host, *args, **kw)
            own = (getattr(host, '_inputs', None), getattr(host, '_outputs', None))

            def conv(a):
                if type(a) is not list or any(a is o for o in own):
                    return a
                if shape == 'tuple':
                    return tuple(a)
                if shape == 'iterator':
                    return iter(list(a))
                return (x for x in list(a))

            new_args = [conv(a) if i < len(iterable_pos) and iterable_pos[i] else a for i, a in enumerate(args)]
            if any(x is not y for x, y in zip(new_args, args)):
                eng.res.stats.probes.bump(f'gadget-operands-passed-as-{shape}')
            return fn(host, *new_args, **kw)

        return shaped


def build_specs(eng):
    A = _ShapedArgs(eng.m['arith'], eng)
    GEN = eng.m['gen']
    specs = []

    def add(prop, name, weight=1.0):
        def deco(fn):
            specs.append(G(prop, name, fn, weight))
            return fn
        return deco

    # ------------------------------------------------------------------ C07
    @add('C07', 'add_sum_n_bits', 3)
    def _(eng, rng):
        n = weighted_choice(rng, [(1, 1), (2, 2), (3, 2), (rng.randint(4, 9), 6), (rng.randint(10, 24), 2), (rng.randint(25, 40), 1),
                                  (rng.randint(60, 140), 0.5)])
        b, barg, sp = _basis_arg(eng, rng)
        big = rng.random() < 0.4

        def bind(host, chosen):
            return (lambda: A.add_sum_n_bits(host, chosen, basis=barg, big_endian=big)), \
                f'add_sum_n_bits({chosen}, basis={barg!r}, big_endian={big})'

        def check(ins, outs, L):
            for j in range(L):
                if bin(ins[0][j]).count('1') != outs[0][j]:
                    return ('sum', f'lane {j}: popcount of operands {bin(ins[0][j]).count("1")} but result decodes to {outs[0][j]}')
            return None

        return dict(need=n, bind=bind, operands=lambda ch: [list(ch)], results=lambda rv: [_le(rv, big)], check=check,
                    basis=b, basis_spelling=sp, bound_kind='eff', _n=n)

    @add('C07', 'add_sum_n_bits_easy', 1)
    def _(eng, rng):
        n = rng.choice((1, 2, 3, rng.randint(4, 12), rng.randint(4, 20)))
        big = rng.random() < 0.4

        def bind(host, chosen):
            return (lambda: A.add_sum_n_bits_easy(host, chosen, big_endian=big)), f'add_sum_n_bits_easy({chosen}, big_endian={big})'

        def check(ins, outs, L):
            for j in range(L):
                if bin(ins[0][j]).count('1') != outs[0][j]:
                    return ('sum', f'lane {j}: popcount {bin(ins[0][j]).count("1")} vs {outs[0][j]}')
            return None

        return dict(need=n, bind=bind, operands=lambda ch: [list(ch)], results=lambda rv: [_le(rv, big)], check=check)

    def weighted(naive):
        def plan(eng, rng):
            n = weighted_choice(rng, [(1, 1), (2, 2), (3, 2), (rng.randint(4, 10), 6), (rng.randint(11, 24), 2)])
            style = rng.choice(('repeat', 'gaps', 'mixed', 'zero'))
            if style == 'zero':
                ws = [0] * n
            elif style == 'repeat':
                ws = [rng.randint(0, 2) for _ in range(n)]
            elif style == 'gaps':
                ws = [rng.choice((0, 3, 7)) for _ in range(n)]
            else:
                ws = [rng.randint(0, 6) for _ in range(n)]
            b, barg, sp = _basis_arg(eng, rng)
            fn = A.add_sum_n_weighted_bits_naive if naive else A.add_sum_n_weighted_bits
            nm = 'add_sum_n_weighted_bits_naive' if naive else 'add_sum_n_weighted_bits'
            box = {}

            def bind(host, chosen):
                pairs = [(ws[i], chosen[i]) for i in range(n)]
                return (lambda: fn(host, pairs, basis=barg)), f'{nm}({pairs}, basis={barg!r})'

            def results(rv):
                box['levels'] = [lv for lv, _ in rv]
                return [[lab] for _, lab in rv]

            def check(ins, outs, L):
                lv = box['levels']
                if len(set(lv)) != len(lv):
                    return ('levels-not-distinct', f'levels {lv}')
                for j in range(L):
                    a = sum(ins[i][j] << ws[i] for i in range(n))
                    b = sum(outs[i][j] << lv[i] for i in range(len(lv)))
                    if a != b:
                        return ('weighted-sum', f'lane {j}: operands sum to {a}, result decodes to {b} (weights {ws}, levels {lv})')
                return None

            return dict(need=n, bind=bind, operands=lambda ch: [[x] for x in ch], results=results, check=check,
                        basis=b, basis_spelling=sp, bound_kind='naive' if naive else 'eff', _n=n)
        return plan

    add('C07', 'add_sum_n_weighted_bits', 4)(weighted(False))
    add('C07', 'add_sum_n_weighted_bits_naive', 2)(weighted(True))

    @add('C07', 'add_sum_pow2_m1', 1.5)
    def _(eng, rng):
        n = rng.choice((1, 2, 3, 4, 6, 7, 8, rng.randint(9, 20), rng.randint(15, 35)))
        big = rng.random() < 0.3
        b, barg, sp = _basis_arg(eng, rng)
        box = {}

        def bind(host, chosen):
            return (lambda: A.add_sum_pow2_m1(host, chosen, big_endian=big, basis=barg)), \
                f'add_sum_pow2_m1({chosen}, big_endian={big}, basis={barg!r})'

        def results(rv):
            box['shape'] = [len(x) for x in rv]
            return [list(x) for x in rv]

        def check(ins, outs, L):
            for j in range(L):
                a = bin(ins[0][j]).count('1')
                b = sum(bin(outs[k][j]).count('1') << k for k in range(len(outs)))
                if a != b:
                    return ('level-sum', f'lane {j}: {a} operand bits set, level lists decode to {b} (shape {box["shape"]})')
            return None

        return dict(need=n, bind=bind, operands=lambda ch: [list(ch)], results=results, check=check, basis=b, basis_spelling=sp)

    @add('C07', 'add_sum_two_numbers', 2)
    def _(eng, rng):
        n, m = rng.randint(1, 7), rng.randint(1, 7)
        big = rng.random() < 0.4

        def bind(host, chosen):
            a, b = chosen[:n], chosen[n:]
            la, lb = list(a), list(b)
            return (lambda: A.add_sum_two_numbers(host, la, lb, big_endian=big)), f'add_sum_two_numbers({a},{b},big_endian={big})'

        def check(ins, outs, L):
            for j in range(L):
                if ins[0][j] + ins[1][j] != outs[0][j]:
                    return ('a+b', f'lane {j}: {ins[0][j]}+{ins[1][j]} != {outs[0][j]}')
            return None

        return dict(need=n + m, bind=bind, operands=lambda ch: [_le(ch[:n], big), _le(ch[n:], big)],
                    results=lambda rv: [_le(rv, big)], check=check)

    @add('C07', 'add_sum_two_numbers_with_shift', 3)
    def _(eng, rng):
        n, m = rng.randint(1, 6), rng.randint(1, 6)
        shift = weighted_choice(rng, [(0, 2), (rng.randint(1, max(1, n - 1)), 4), (n, 2), (n + 1, 2), (rng.randint(n + 1, 2 * n + 3), 3), (n + m + 2, 1)])
        big = rng.random() < 0.4

        def bind(host, chosen):
            a, b = chosen[:n], chosen[n:]
            la, lb = list(a), list(b)
            return (lambda: A.add_sum_two_numbers_with_shift(host, shift, la, lb, big_endian=big)), \
                f'add_sum_two_numbers_with_shift(shift={shift},{a},{b},big_endian={big})'

        def check(ins, outs, L):
            for j in range(L):
                if ins[0][j] + (ins[1][j] << shift) != outs[0][j]:
                    return ('a+b<<shift:' + ('shift>n' if shift > n else ('shift=n' if shift == n else 'shift<n')),
                            f'lane {j}: {ins[0][j]}+({ins[1][j]}<<{shift}) != {outs[0][j]} (n={n}, m={m})')
            return None

        return dict(need=n + m, bind=bind, operands=lambda ch: [_le(ch[:n], big), _le(ch[n:], big)],
                    results=lambda rv: [_le(rv, big)], check=check, tag='shift>n' if shift > n else 'shift<=n')

    @add('C07', 'generate_sum_n_bits', 1)
    def _(eng, rng):
        n = rng.choice((1, 2, 3, rng.randint(4, 10)))
        b, barg, sp = _basis_arg(eng, rng)
        big = rng.random() < 0.4

        def check(ins, outs, L):
            for j in range(L):
                if bin(ins[0][j]).count('1') != outs[0][j]:
                    return ('sum', f'lane {j}')
            return None

        return dict(front='generate', desc=f'generate_sum_n_bits({n}, basis={barg!r}, big_endian={big})',
                    call=lambda: A.generate_sum_n_bits(n, basis=barg, big_endian=big),
                    in_groups=lambda net: [list(net.inputs)], out_groups=lambda net: [_le(net.outputs, big)], check=check,
                    basis=b, basis_spelling=sp, bound_kind='eff', _n=n)

    def gen_weighted(naive):
        def plan(eng, rng):
            n = rng.choice((1, 2, 3, rng.randint(4, 10)))
            ws = [rng.choice((rng.randint(0, 4), rng.randint(0, 4), rng.randint(0, 9))) for _ in range(n)]
            b, barg, sp = _basis_arg(eng, rng)
            fn = A.generate_sum_weighted_bits_naive if naive else A.generate_sum_weighted_bits_efficient
            nm = fn.__name__
            def check(ins, outs, L):
                # the levels of the outputs are not handed back by the generate_ form; they are determined by the
                # identity itself: in a lane where all set output bits but one have known levels, the remaining
                # one must account for the rest of the sum (a power of two); then every lane is verified
                m = len(outs)
                S = [sum(ins[i][j] << ws[i] for i in range(len(ws))) for j in range(L)]
                lv = [None] * m
                progress = True
                while progress:
                    progress = False
                    for j in range(L):
                        unk = [k for k in range(m) if outs[k][j] and lv[k] is None]
                        if len(unk) == 1:
                            rest = S[j] - sum(1 << lv[k] for k in range(m) if outs[k][j] and lv[k] is not None)
                            if rest <= 0 or rest & (rest - 1):
                                return ('weighted-sum', f'lane {j}: operands sum to {S[j]}, no level for output {unk[0]} fits (weights {ws})')
                            lv[unk[0]] = rest.bit_length() - 1
                            progress = True
                known = [x for x in lv if x is not None]
                if len(set(known)) != len(known):
                    return ('levels-not-distinct', f'inferred levels {lv}')
                for j in range(L):
                    if any(outs[k][j] and lv[k] is None for k in range(m)):
                        continue
                    if S[j] != sum(1 << lv[k] for k in range(m) if outs[k][j]):
                        return ('weighted-sum', f'lane {j}: operands sum to {S[j]} but the outputs (levels {lv}) decode to something else (weights {ws})')
                return None

            return dict(front='generate', desc=f'{nm}({ws}, basis={barg!r})', call=lambda: fn(ws, basis=barg),
                        in_groups=lambda net: [[x] for x in net.inputs], out_groups=lambda net: [[x] for x in net.outputs],
                        check=check, basis=b, basis_spelling=sp, bound_kind='naive' if naive else 'eff', _n=n)
        return plan

    add('C07', 'generate_sum_weighted_bits_efficient', 1)(gen_weighted(False))
    add('C07', 'generate_sum_weighted_bits_naive', 0.7)(gen_weighted(True))

    # ------------------------------------------------------------------ C08
    MulMode, SquareMode = A.MulMode, A.SquareMode
    mul_fns = {
        'add_mul': A.add_mul, 'add_mul_alter': A.add_mul_alter, 'add_mul_dadda': A.add_mul_dadda,
        'add_mul_wallace': A.add_mul_wallace, 'add_mul_pow2_m1': A.add_mul_pow2_m1,
        'add_mul_karatsuba': A.add_mul_karatsuba,
        'add_mul_karatsuba_with_efficient_sum': A.add_mul_karatsuba_with_efficient_sum,
    }

    def mul_len(n, m):
        return n + m - 1 if (n == 1 or m == 1) else n + m

    def mul_check(n, m, nm):
        tag = nm.split(':', 1)[1] if ':' in nm else ''

        def check(ins, outs, L):
            for j in range(L):
                if ins[0][j] * ins[1][j] != outs[0][j]:
                    return ('product' + (':' + tag if tag else ''), f'lane {j}: {ins[0][j]}*{ins[1][j]} != {outs[0][j]} (widths {n}x{m})')
            return None
        return check

    def mul_widths(rng, name):
        kara = 'karatsuba' in name
        table = [('small', 10), ('mid', 1.5), ('wide', 0.6), ('skinny', 1.5)]
        if kara:
            table += [('kara', 0.8), ('kara-nested', 0.35)]
        kind = weighted_choice(rng, table)
        if kind == 'small':
            n, m = rng.randint(1, 8), rng.randint(1, 8)
            if rng.random() < 0.5:
                n, m = rng.randint(1, 5), rng.randint(1, 5)
        elif kind == 'skinny':
            n, m = rng.randint(1, 3), rng.randint(6, 14)
        elif kind == 'mid':
            n, m = rng.randint(9, 16), rng.randint(1, 16)
        elif kind == 'wide':
            n = rng.randint(17, 33)
            m = rng.choice((n, rng.randint(17, 33), rng.randint(1, 33)))
        elif kind == 'kara':
            n = rng.choice((18, 20, 21, 22, 23, 24))
            m = rng.choice((n, n, rng.randint(1, n)))
        else:
            n = rng.randint(33, 44)
            m = rng.choice((n, n, rng.randint(20, n)))
        if rng.random() < 0.5:
            n, m = m, n
        return kind, n, m

    def mul_plan(name):
        def plan(eng, rng):
            kind, n, m = mul_widths(rng, name)
            big = rng.random() < 0.45
            fn = mul_fns[name]
            box = {}
            alias = n == m and rng.random() < 0.15  # the same list object for both operands: a * a
            reuse = rng.random() < 0.2  # the caller uses its operand lists for a second call

            def bind(host, chosen):
                la = list(chosen[:n])
                lb = la if alias else list(chosen[n:])
                def call():
                    rv = fn(host, la, lb, big_endian=big)
                    if reuse:
                        rv = fn(host, la, lb, big_endian=big)
                    return rv
                return call, f'{name}({chosen[:n]},{"<same list>" if alias else chosen[n:]},big_endian={big}){" twice" if reuse else ""}'

            def results(rv):
                box['len'] = len(rv)
                return [_le(rv, big)]

            def length(ins, outs, L):
                if box['len'] != mul_len(n, m):
                    return ('result-length', f'{box["len"]} result bits for widths {n}x{m}, documented {mul_len(n, m)}')
                return None

            def operands(ch):
                if alias:
                    return [_le(ch[:n], big), _le(ch[:n], big)]
                return [_le(ch[:n], big), _le(ch[n:], big)]

            eng.res.stats.probes.bump(f'mul-width-class:{kind}')
            if alias:
                eng.res.stats.probes.bump('mul-operands-aliased')
            if reuse:
                eng.res.stats.probes.bump('mul-operand-lists-reused')
            return dict(need=n if alias else n + m, bind=bind, operands=operands, results=results,
                        check=mul_check(n, m, name + (':' + kind if kind != 'small' else '') + (':big' if big else '')),
                        also={'length': length}, cost=40 * n * m, inputs_only=(n + m > 16))
        return plan

    for nm, w in (('add_mul', 2), ('add_mul_alter', 2), ('add_mul_dadda', 2), ('add_mul_wallace', 2), ('add_mul_pow2_m1', 2),
                  ('add_mul_karatsuba', 1.3), ('add_mul_karatsuba_with_efficient_sum', 1.3)):
        add('C08', nm, w)(mul_plan(nm))

    @add('C08', 'generate_mul', 3)
    def _(eng, rng):
        mode = rng.choice(list(MulMode))
        kind, n, m = mul_widths(rng, 'karatsuba' if mode == MulMode.KARATSUBA else 'x')
        if kind == 'small':
            n, m = min(n, 6), min(m, 6)
        big = rng.random() < 0.45

        def length(ins, outs, L):
            return None

        def outs(net):
            return [_le(net.outputs, big)]

        def check(ins, outs_, L):
            for j in range(L):
                if ins[0][j] * ins[1][j] != outs_[0][j]:
                    return (f'product:{mode.name}', f'lane {j}: {ins[0][j]}*{ins[1][j]} != {outs_[0][j]} ({n}x{m}, {mode.name})')
            return None

        box = {}

        def out_groups(net):
            box['len'] = len(net.outputs)
            return [_le(net.outputs, big)]

        def length2(ins, outs_, L):
            if box['len'] != mul_len(n, m):
                return (f'result-length:{mode.name}', f'{box["len"]} result bits for {n}x{m} in mode {mode.name}, documented {mul_len(n, m)}')
            return None

        return dict(front='generate', desc=f'generate_mul({n},{m},type={mode.name},big_endian={big})',
                    call=lambda: A.generate_mul(n, m, type=mode, big_endian=big),
                    in_groups=lambda net: [_le(net.inputs[:n], big), _le(net.inputs[n:], big)], out_groups=out_groups,
                    check=check, also={'length': length2})

    def sq_plan(name, fn):
        def plan(eng, rng):
            n = weighted_choice(rng, [(1, 1), (2, 1), (3, 1), (rng.randint(4, 9), 4), (rng.randint(10, 14), 1), (rng.randint(15, 40), 0.4),
                                      (rng.randint(47, 56), 0.15)])
            big = rng.random() < 0.4
            box = {}

            def bind(host, chosen):
                return (lambda: fn(host, chosen, big_endian=big)), f'{name}({chosen},big_endian={big})'

            def results(rv):
                box['len'] = len(rv)
                return [_le(rv, big)]

            def check(ins, outs, L):
                for j in range(L):
                    if ins[0][j] ** 2 != outs[0][j]:
                        return ('square', f'lane {j}: {ins[0][j]}^2 != {outs[0][j]} (n={n})')
                return None

            def length(ins, outs, L):
                want = 1 if n == 1 else 2 * n
                if box['len'] != want:
                    return ('result-length', f'{box["len"]} bits for n={n}, documented {want}')
                return None

            return dict(need=n, bind=bind, operands=lambda ch: [_le(ch, big)], results=results, check=check, also={'length': length},
                        cost=30 * n * n)
        return plan

    add('C08', 'add_square', 2)(sq_plan('add_square', A.add_square))
    add('C08', 'add_square_pow2_m1', 2)(sq_plan('add_square_pow2_m1', A.add_square_pow2_m1))

    @add('C08', 'generate_square', 2)
    def _(eng, rng):
        n = rng.randint(1, 8)
        mode = rng.choice(list(SquareMode))
        big = rng.random() < 0.4
        box = {}

        def out_groups(net):
            box['len'] = len(net.outputs)
            return [_le(net.outputs, big)]

        def check(ins, outs, L):
            for j in range(L):
                if ins[0][j] ** 2 != outs[0][j]:
                    return (f'square:{mode.name}', f'lane {j}: {ins[0][j]}^2 != {outs[0][j]}')
            return None

        def length(ins, outs, L):
            want = 1 if n == 1 else 2 * n
            if box['len'] != want:
                return (f'result-length:{mode.name}', f'{box["len"]} bits for n={n}, documented {want}')
            return None

        return dict(front='generate', desc=f'generate_square({n},type={mode.name},big_endian={big})',
                    call=lambda: A.generate_square(n, type=mode, big_endian=big),
                    in_groups=lambda net: [_le(net.inputs, big)], out_groups=out_groups, check=check, also={'length': length})

    # ------------------------------------------------------------------ C09
    @add('C09', 'add_sub_two_numbers', 2)
    def _(eng, rng):
        n = rng.randint(1, 7)
        m = rng.choice((rng.randint(1, n), rng.randint(1, n), rng.randint(1, n + 3)))
        big = rng.random() < 0.4
        box = {}

        def bind(host, chosen):
            a, b = chosen[:n], chosen[n:]
            la, lb = list(a), list(b)
            return (lambda: A.add_sub_two_numbers(host, la, lb, big_endian=big)), f'add_sub_two_numbers({a},{b},big_endian={big})'

        def results(rv):
            box['len'] = len(rv)
            return [_le(rv, big)]

        def check(ins, outs, L):
            tag = 'b-longer' if m > n else 'a-not-shorter'
            if box['len'] != n:
                return ('result-length:' + tag, f'{box["len"]} result bits for len(a)={n}, len(b)={m}')
            for j in range(L):
                if (ins[0][j] - ins[1][j]) % (1 << n) != outs[0][j]:
                    return ('a-b:' + tag, f'lane {j}: ({ins[0][j]}-{ins[1][j]}) mod 2^{n} != {outs[0][j]} (len b={m})')
            return None

        return dict(need=n + m, bind=bind, operands=lambda ch: [_le(ch[:n], big), _le(ch[n:], big)], results=results, check=check)

    @add('C09', 'add_subtract_with_compare', 3)
    def _(eng, rng):
        n = rng.randint(1, 6)
        m = rng.choice((n, n, rng.randint(1, n), rng.randint(1, 6)))
        big = rng.random() < 0.4
        box = {}

        def bind(host, chosen):
            a, b = chosen[:n], chosen[n:]
            la, lb = list(a), list(b)
            return (lambda: A.add_subtract_with_compare(host, la, lb, big_endian=big)), \
                f'add_subtract_with_compare({a},{b},big_endian={big})'

        def results(rv):
            res, flag = rv
            box['len'] = len(res)
            return [_le(res, big), [flag]]

        def check(ins, outs, L):
            w = box['len']
            tag = ('eq' if n == m else ('a-longer' if n > m else 'b-longer')) + (':big' if big else ':little')
            if w < n:
                return ('result-length:' + tag, f'{w} result bits for len(a)={n}')
            for j in range(L):
                if (ins[0][j] - ins[1][j]) % (1 << w) != outs[0][j]:
                    return ('a-b:' + tag, f'lane {j}: ({ins[0][j]}-{ins[1][j]}) mod 2^{w} != {outs[0][j]} (len a={n}, len b={m})')
                if bool(outs[1][j]) != (ins[0][j] < ins[1][j]):
                    return ('borrow:' + tag, f'lane {j}: a={ins[0][j]} b={ins[1][j]} borrow={outs[1][j]}')
            return None

        return dict(need=n + m, bind=bind, operands=lambda ch: [_le(ch[:n], big), _le(ch[n:], big)], results=results, check=check)

    @add('C09', 'add_div_mod', 2)
    def _(eng, rng):
        n = rng.choice((1, 2, 3, 3, 4, 4, 5))
        big = rng.random() < 0.4

        def bind(host, chosen):
            a, b = chosen[:n], chosen[n:]
            la, lb = list(a), list(b)
            return (lambda: A.add_div_mod(host, la, lb, big_endian=big)), f'add_div_mod({a},{b},big_endian={big})'

        def check(ins, outs, L):
            for j in range(L):
                a, b = ins[0][j], ins[1][j]
                want = (a // b, a % b) if b else (0, 0)
                if (outs[0][j], outs[1][j]) != want:
                    return ('divmod' + (':b=0' if not b else ''), f'lane {j}: {a} divmod {b} = {want}, got ({outs[0][j]},{outs[1][j]})')
            return None

        return dict(need=2 * n, bind=bind, operands=lambda ch: [_le(ch[:n], big), _le(ch[n:], big)],
                    results=lambda rv: [_le(rv[0], big), _le(rv[1], big)], check=check, cost=60 * n * n)

    @add('C09', 'generate_div_mod', 1)
    def _(eng, rng):
        n = rng.choice((1, 2, 3, 4))
        big = rng.random() < 0.4

        def check(ins, outs, L):
            for j in range(L):
                a, b = ins[0][j], ins[1][j]
                want = (a // b, a % b) if b else (0, 0)
                if (outs[0][j], outs[1][j]) != want:
                    return ('divmod', f'lane {j}: {a} divmod {b}')
            return None

        return dict(front='generate', desc=f'generate_div_mod({n},big_endian={big})', call=lambda: A.generate_div_mod(n, big_endian=big),
                    in_groups=lambda net: [_le(net.inputs[:n], big), _le(net.inputs[n:], big)],
                    out_groups=lambda net: [_le(net.outputs[:n], big), _le(net.outputs[n:], big)], check=check)

    @add('C09', 'add_sqrt', 2)
    def _(eng, rng):
        n = rng.choice((1, 2, 3, 4, 5, 6, 7, 8))
        big = rng.random() < 0.4
        box = {}

        def bind(host, chosen):
            return (lambda: A.add_sqrt(host, chosen, big_endian=big)), f'add_sqrt({chosen},big_endian={big})'

        def results(rv):
            box['len'] = len(rv)
            return [_le(rv, big)]

        def check(ins, outs, L):
            if box['len'] != (n + 1) // 2:
                return ('result-length', f'{box["len"]} bits for n={n}, documented {(n + 1) // 2}')
            for j in range(L):
                if math.isqrt(ins[0][j]) != outs[0][j]:
                    return ('isqrt' + (':odd' if n % 2 else ':even'), f'lane {j}: isqrt({ins[0][j]}) != {outs[0][j]} (n={n})')
            return None

        return dict(need=n, bind=bind, operands=lambda ch: [_le(ch, big)], results=results, check=check, cost=120 * n * n)

    @add('C09', 'add_equal', 2)
    def _(eng, rng):
        n = rng.randint(1, 7)
        num = weighted_choice(rng, [(rng.randrange(1 << n), 6), (0, 1), ((1 << n) - 1, 1), (1 << n, 1), ((1 << n) + rng.randint(1, 9), 1), (-rng.randint(1, (1 << n) + 2), 1)])
        wide = rng.random() < 0.08
        if wide:
            # beyond the 53 bits a float carries exactly
            n = rng.randint(50, 70)
            num = rng.choice(((1 << 53) + 1, (1 << n) - 1, rng.getrandbits(n) | 1 | (1 << (n - 1)), (1 << (n - 1)) + 3)) & ((1 << n) - 1)

        def bind(host, chosen):
            return (lambda: A.add_equal(host, chosen, num)), f'add_equal({chosen},{num})'

        def check(ins, outs, L):
            for j in range(L):
                if bool(outs[0][j]) != (ins[0][j] == num):
                    return ('equal' + (':does-not-fit' if (num >= (1 << n) or num < 0) else ''), f'lane {j}: operand {ins[0][j]} const {num} -> {outs[0][j]}')
            return None

        spec = dict(need=n, bind=bind, operands=lambda ch: [list(ch)], results=lambda rv: [[rv]], check=check)
        if wide:
            near = [num, num ^ 1, num - 1, num + 1, float_round(num), num & ~0xFFF, 0, (1 << n) - 1]
            spec.update(inputs_only=True, distinct_operands=True, plant=[v & ((1 << n) - 1) for v in near])
        return spec

    @add('C09', 'add_plus_one', 4)
    def _(eng, rng):
        n = rng.randint(1, 6)
        out_len = weighted_choice(rng, [(n + 1, 4), (n, 2), (max(1, n - 1), 1), (1, 1), (n + 2, 1), (n + 3, 1)])
        use_labels = rng.random() < 0.5
        add_outputs = rng.random() < 0.5
        big = rng.random() < 0.4
        box = {}

        def bind(host, chosen):
            kw = {}
            rl = None
            if use_labels:
                rl = [f'z{eng.opi}_{i}' for i in range(out_len)]
                if rng.random() < 0.08 and not host.has_gate(''):
                    rl[rng.randrange(len(rl))] = ''
                if getattr(eng, 'taken_label', None) is not None:
                    rl[rng.randrange(len(rl))] = eng.taken_label
                    eng.taken_label_used = True
                kw['result_labels'] = list(rl)
            if add_outputs or rng.random() < 0.3:
                kw['add_outputs'] = add_outputs
            if big or rng.random() < 0.3:
                kw['big_endian'] = big
            return (lambda: GEN.add_plus_one(host, chosen, **kw)), f'add_plus_one({chosen},{kw})'

        def results(rv):
            box['labels'] = list(rv)
            box['len'] = len(rv)
            return [_le(rv, big)]

        def check(ins, outs, L):
            w = box['len']
            want_len = out_len if use_labels else n + 1
            if w != want_len:
                return ('result-length', f'{w} result bits, expected {want_len}')
            for j in range(L):
                if (ins[0][j] + 1) % (1 << w) != outs[0][j]:
                    return ('x+1', f'lane {j}: ({ins[0][j]}+1) mod 2^{w} != {outs[0][j]} (n={n})')
            return None

        spec = dict(need=n, bind=bind, operands=lambda ch: [_le(ch, big)], results=results, check=check, no_repeat=True)
        spec['marking_fn'] = lambda: (add_outputs, box.get('labels', []))
        return spec

    @add('C09', 'generate_plus_one', 1)
    def _(eng, rng):
        n = rng.randint(1, 6)
        out_len = rng.choice((n + 1, n, max(1, n - 1), n + 2))
        big = rng.random() < 0.4

        def check(ins, outs, L):
            for j in range(L):
                if (ins[0][j] + 1) % (1 << out_len) != outs[0][j]:
                    return ('x+1', f'lane {j}: ({ins[0][j]}+1) mod 2^{out_len} != {outs[0][j]}')
            return None

        return dict(front='generate', desc=f'generate_plus_one({n},{out_len},big_endian={big})',
                    call=lambda: GEN.generate_plus_one(n, out_len, big_endian=big),
                    in_groups=lambda net: [_le(net.inputs, big)], out_groups=lambda net: [_le(net.outputs, big)], check=check)

    @add('C09', 'add_if_then_else', 2)
    def _(eng, rng):
        add_outputs = rng.random() < 0.5
        use_label = rng.random() < 0.5
        box = {}

        def bind(host, chosen):
            kw = {}
            if use_label:
                kw['result_label'] = f'ite{eng.opi}'
                if rng.random() < 0.15:
                    # a fresh label that extends the label of a gate the host already has: <label>_0, <label>_2 ...
                    base = rng.choice(sorted(host.gates))
                    cand = f'{base}_{rng.randint(0, 3)}'
                    if not host.has_gate(cand):
                        kw['result_label'] = cand
                if rng.random() < 0.1 and not host.has_gate(''):
                    kw['result_label'] = ''  # the empty string is a label like any other
                if getattr(eng, 'taken_label', None) is not None:
                    kw['result_label'] = eng.taken_label
                    eng.taken_label_used = True
            if add_outputs or rng.random() < 0.3:
                kw['add_outputs'] = add_outputs
            return (lambda: GEN.add_if_then_else(host, chosen[0], chosen[1], chosen[2], **kw)), f'add_if_then_else({chosen},{kw})'

        def results(rv):
            box['labels'] = [rv]
            return [[rv]]

        def check(ins, outs, L):
            for j in range(L):
                i, t, e = ins[0][j], ins[1][j], ins[2][j]
                if outs[0][j] != (t if i else e):
                    return ('ite', f'lane {j}: if={i} then={t} else={e} -> {outs[0][j]}')
            return None

        spec = dict(need=3, bind=bind, operands=lambda ch: [[ch[0]], [ch[1]], [ch[2]]], results=results, check=check, no_repeat=True)
        spec['marking_fn'] = lambda: (add_outputs, box.get('labels', []))
        return spec

    def pairwise(name, k):
        def plan(eng, rng):
            n = rng.randint(0, 4)
            add_outputs = rng.random() < 0.5
            use_labels = rng.random() < 0.5
            box = {}
            fn = GEN.add_pairwise_xor if k == 2 else GEN.add_pairwise_if_then_else

            def bind(host, chosen):
                kw = {}
                if use_labels:
                    kw['result_labels'] = [f'pw{eng.opi}_{i}' for i in range(n)]
                    if n and rng.random() < 0.15:
                        # labels in a stem/suffix relation: r, r_0, r_1 ... (each of them fresh)
                        stem = f'r{eng.opi}'
                        fam = [stem] + [f'{stem}_{i}' for i in range(n)]
                        kw['result_labels'] = rng.sample(fam, n)
                    if n and rng.random() < 0.1 and not host.has_gate(''):
                        kw['result_labels'][rng.randrange(n)] = ''
                    if n and getattr(eng, 'taken_label', None) is not None:
                        kw['result_labels'][rng.randrange(n)] = eng.taken_label
                        eng.taken_label_used = True
                if add_outputs or rng.random() < 0.3:
                    kw['add_outputs'] = add_outputs
                groups = [list(chosen[i * n:(i + 1) * n]) for i in range(k)]
                return (lambda: fn(host, *groups, **kw)), f'{name}({groups},{kw})'

            def results(rv):
                box['labels'] = list(rv)
                return [[x] for x in rv]

            def check(ins, outs, L):
                if len(outs) != n:
                    return ('result-length', f'{len(outs)} results for n={n}')
                for i in range(n):
                    for j in range(L):
                        if k == 2:
                            want = ins[i][j] ^ ins[n + i][j]
                        else:
                            want = ins[n + i][j] if ins[i][j] else ins[2 * n + i][j]
                        if outs[i][j] != want:
                            return ('pointwise', f'position {i}, lane {j}')
                return None

            spec = dict(need=k * n, bind=bind, operands=lambda ch: [[x] for x in ch], results=results, check=check, no_repeat=True)
            spec['marking_fn'] = lambda: (add_outputs, box.get('labels', []))
            return spec
        return plan

    add('C09', 'add_pairwise_xor', 2)(pairwise('add_pairwise_xor', 2))
    add('C09', 'add_pairwise_if_then_else', 2)(pairwise('add_pairwise_if_then_else', 3))

    @add('C09', 'generate_gadgets', 1)
    def _(eng, rng):
        which = rng.choice(('ite', 'pxor', 'pite', 'sub', 'sqrt', 'equal'))
        if which == 'ite':
            def check(ins, outs, L):
                for j in range(L):
                    if outs[0][j] != (ins[1][j] if ins[0][j] else ins[2][j]):
                        return ('ite', f'lane {j}')
                return None
            return dict(front='generate', desc='generate_if_then_else()', call=lambda: GEN.generate_if_then_else(),
                        in_groups=lambda net: [[x] for x in net.inputs], out_groups=lambda net: [[x] for x in net.outputs], check=check)
        if which in ('pxor', 'pite'):
            n = rng.randint(1, 3)
            k = 2 if which == 'pxor' else 3
            fn = GEN.generate_pairwise_xor if k == 2 else GEN.generate_pairwise_if_then_else

            def check(ins, outs, L):
                for i in range(n):
                    for j in range(L):
                        want = (ins[i][j] ^ ins[n + i][j]) if k == 2 else (ins[n + i][j] if ins[i][j] else ins[2 * n + i][j])
                        if outs[i][j] != want:
                            return ('pointwise', f'position {i}, lane {j}')
                return None
            return dict(front='generate', desc=f'{fn.__name__}({n})', call=lambda: fn(n),
                        in_groups=lambda net: [[x] for x in net.inputs], out_groups=lambda net: [[x] for x in net.outputs], check=check)
        if which == 'sub':
            n = rng.randint(1, 5)
            m = rng.randint(1, n)
            big = rng.random() < 0.4

            def check(ins, outs, L):
                for j in range(L):
                    if (ins[0][j] - ins[1][j]) % (1 << n) != outs[0][j]:
                        return ('a-b', f'lane {j}')
                return None
            return dict(front='generate', desc=f'generate_sub_two_numbers({n},{m},big_endian={big})',
                        call=lambda: A.generate_sub_two_numbers(n, m, big_endian=big),
                        in_groups=lambda net: [_le(net.inputs[:n], big), _le(net.inputs[n:], big)],
                        out_groups=lambda net: [_le(net.outputs, big)], check=check)
        if which == 'sqrt':
            n = rng.randint(1, 7)
            big = rng.random() < 0.4

            def check(ins, outs, L):
                for j in range(L):
                    if math.isqrt(ins[0][j]) != outs[0][j]:
                        return ('isqrt', f'lane {j}: isqrt({ins[0][j]}) != {outs[0][j]}')
                return None
            return dict(front='generate', desc=f'generate_sqrt({n},big_endian={big})', call=lambda: A.generate_sqrt(n, big_endian=big),
                        in_groups=lambda net: [_le(net.inputs, big)], out_groups=lambda net: [_le(net.outputs, big)], check=check)
        n = rng.randint(1, 6)
        num = rng.choice((rng.randrange(1 << n), 1 << n, 0))

        def check(ins, outs, L):
            for j in range(L):
                if bool(outs[0][j]) != (ins[0][j] == num):
                    return ('equal', f'lane {j}')
            return None
        return dict(front='generate', desc=f'generate_equal({n},{num})', call=lambda: A.generate_equal(n, num),
                    in_groups=lambda net: [list(net.inputs)], out_groups=lambda net: [[x] for x in net.outputs], check=check)

    return specs

