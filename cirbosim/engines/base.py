"""Common engine plumbing: run results, violation records, outcome classification."""
from __future__ import annotations

import traceback

from .. import ctx
from ..util import Counter, digest


class Violation(dict):
    @property
    def sig(self):
        return f"{self['prop']}/{self['oracle']}/{self['disc']}"


class RunResult:
    def __init__(self):
        self.events = []  # one JSON-able entry per op
        self.violations = []  # list[Violation], all properties
        self.stats = ctx.Stats()
        self.states = set()  # digests of distinct non-trivial states reached
        self.cross = Counter()  # cross-property observations (never verdicts)
        self.harness_error = None

    def log_digest(self):
        return digest(self.events)

    def to_json(self, prop=None, full=False):
        d = {
            'digest': self.log_digest(),
            'n_ops': len(self.events),
            'violations': [dict(v) for v in self.violations],
            'harness_error': self.harness_error,
        }
        if full:
            d['events'] = self.events
        return d


def innermost_cirbo_frame(exc) -> str:
    """`file:function` of the innermost traceback frame that lies inside cirbo."""
    tb = traceback.extract_tb(exc.__traceback__)
    for fr in reversed(tb):
        fn = fr.filename.replace('\\', '/')
        if '/cirbo/' in fn and '/cirbosim/' not in fn:
            return f"{fn.split('/cirbo/', 1)[1]}:{fr.name}"
    return 'outside-cirbo'


def exc_name(e) -> str:
    return type(e).__name__


def is_instance_named(e, names) -> bool:
    """True iff any class in e's MRO has one of `names` (avoids importing cirbo here)."""
    return any(k.__name__ in names for k in type(e).__mro__)
