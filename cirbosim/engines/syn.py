"""Engine SYN (C06): exact synthesis under a solver peer, a pool peer and a virtual clock.

One op = one synthesis case: a function model (truth table or python callable, with
don't-cares), a gate budget, a basis, a list of constraints, a time limit and an
explicit fault list for the pool.  The real CircuitFinderSat runs against SimSAT
(any model, seeded) and SimPool (early / just-before-deadline / timeout / worker
death on the virtual clock).  Soundness of every returned circuit and completeness
against an independent brute-force enumerator are judged.
"""
from __future__ import annotations

import itertools
import random

from .. import ctx, observe
from ..refnet import ModelError, Net, apply_gate, var_lanes
from ..util import weighted_choice
from .base import RunResult, Violation, exc_name, innermost_cirbo_frame, is_instance_named

BIN_TYPES = ('AND', 'OR', 'XOR', 'NAND', 'NOR', 'NXOR', 'GT', 'LT', 'GEQ', 'LEQ', 'LNOT', 'RNOT', 'LIFF', 'RIFF',
             'ALWAYS_TRUE', 'ALWAYS_FALSE')


def tt_of_type(t: str) -> str:
    """f(0,0) f(0,1) f(1,0) f(1,1) of a binary gate type, by the model's semantics."""
    a, b = 0b0011, 0b0101  # lanes: index = 2*first + second -> (0,0),(0,1),(1,0),(1,1) read MSB first
    # use 4 lanes, lane j <-> (first, second) = (j>>1, j&1)
    A = sum(((j >> 1) & 1) << j for j in range(4))
    B = sum((j & 1) << j for j in range(4))
    v = apply_gate(t, [A, B], 0b1111)
    return ''.join('1' if (v >> j) & 1 else '0' for j in range(4))


def op_apply(tt: str, a: int, b: int, mask: int) -> int:
    r = 0
    if tt[0] == '1':
        r |= ~a & ~b
    if tt[1] == '1':
        r |= ~a & b
    if tt[2] == '1':
        r |= a & ~b
    if tt[3] == '1':
        r |= a & b
    return r & mask


class _Rejected(Exception):
    pass


def brute_force(n, N, care, value, basis, cons, budget):
    """Does a circuit with exactly N two-input gates over `basis` exist that matches
    `value` on `care` for every output (each output at some internal gate) and obeys
    `cons`?  Returns True / False / None (budget exhausted)."""
    L = 1 << n
    mask = (1 << L) - 1
    tabs = [var_lanes(i, n) for i in range(n)]
    m = len(care)
    if N == 0:
        return False if m > 0 else True
    basis = sorted(set(basis))
    if cons.get('normalized'):
        basis = [t for t in basis if t[0] == '0']
    fix = cons.get('fix', {})  # gate -> dict(first=, second=, tt=)
    forbid = cons.get('forbid', set())  # set of (from, to)
    leaves = [0]

    def outputs_ok(T):
        for h in range(m):
            ok = False
            for g in range(n, n + N):
                if (T[g] ^ value[h]) & care[h] == 0:
                    ok = True
                    break
            if not ok:
                return False
        return True

    def rec(g, T):
        if g == n + N:
            leaves[0] += 1
            return outputs_ok(T)
        if leaves[0] > budget:
            return None
        fx = fix.get(g, {})
        unknown = False
        for a in range(g):
            for b in range(a + 1, g):
                if (a, g) in forbid or (b, g) in forbid:
                    continue
                fp, sp = fx.get('first'), fx.get('second')
                if fp is not None and sp is not None:
                    if (a, b) != (fp, sp):
                        continue
                elif fp is not None:
                    if fp not in (a, b):
                        continue
                elif sp is not None:
                    if sp not in (a, b):
                        continue
                for t in basis:
                    if fx.get('tt') is not None and t != fx['tt']:
                        continue
                    T.append(op_apply(t, T[a], T[b], mask))
                    r = rec(g + 1, T)
                    T.pop()
                    if r:
                        return True
                    if r is None:
                        unknown = True
                        return None
        return None if unknown else False

    return rec(n, list(tabs))


def leaves_estimate(n, N, nb):
    x = 1
    for g in range(n, n + N):
        x *= (g * (g - 1) // 2) * nb
    return x


class SynEngine:
    name = 'SYN'

    def __init__(self, mods):
        self.m = mods
        self.cs = mods['cs']
        self.GT = mods['GT']

    # ------------------------------------------------------------------ generation
    def gen(self, rng: random.Random, prop, tier, run_index):
        cfg = {
            'sat_model_order': rng.choice(('ascending', 'ascending', 'shuffled', 'descending')),
            'fault_rate': rng.choice((0.0, 0.0, 0.15, 0.4)),
            'uuid_order': 'asc',
            'brute_budget': 60000 if tier == 'quick' else 900000,
        }
        ops = []
        for _ in range(rng.randint(2, 6)):
            op = {'k': 'find', 's': rng.getrandbits(48)}
            if rng.random() < cfg['fault_rate']:
                op['f'] = [{'at': f'pool.call#{rng.choice((1, 1, 2))}', 'kind': rng.choice(('timeout', 'timeout', 'death'))}]
            elif rng.random() < cfg['fault_rate'] * 0.3:
                op['f'] = [{'at': 'sat.solve#1', 'kind': 'backend-error'}]
            elif rng.random() < cfg['fault_rate'] * 0.3:
                op['f'] = [{'at': f'idpool.id#{rng.choice((1, 2, 5, 17, 40, 90, 200, 400))}', 'kind': 'alloc-failure'}]
            ops.append(op)
        return {'cfg': cfg, 'ops': ops}

    # ------------------------------------------------------------------ execution
    def execute(self, run, prop, run_seed=0) -> RunResult:
        from ..peers import uuidsrc

        self.res = RunResult()
        self.prop = prop
        self.cfg = run['cfg']
        self.found = {}  # (function key, basis key, constraints key) -> smallest N with a solution
        uuidsrc.source.reset(run_seed, 'asc')
        for i, op in enumerate(run['ops']):
            self.opi = i
            for f in op.get('f', ()):
                self.res.stats.scheduled.bump(f"{f['at'].split('#')[0]}:{f['kind']}")
            c = ctx.OpCtx(sub=op['s'], faults=op.get('f'), stats=self.res.stats)
            c.cfg = self.cfg
            ctx.set_cur(c)
            self.ev = {'i': i, 'k': op['k']}
            self.op_find(op, c.rng('op'))
            if self.ev.get('faulted'):
                self.ev['out'] = f"{self.ev.get('out')}[retried-after-{self.ev['faulted']}]"
            self.res.stats.outcomes.bump(f"{op['k']}:{self.ev.get('out', 'skip')}")
            self.res.events.append(self.ev)
        return self.res

    def violate(self, oracle, disc, msg):
        v = Violation(prop='C06', oracle=oracle, disc=disc, msg=str(msg)[:500], op=self.opi, k='find')
        self.res.violations.append(v)
        self.ev.setdefault('viol', []).append(v.sig)

    # ------------------------------------------------------------------ the op
    def op_find(self, op, rng):
        cs = self.cs
        DontCare = self.m['logic'].DontCare
        n = weighted_choice(rng, [(1, 1), (2, 4), (3, 5), (4, 1)])
        m = weighted_choice(rng, [(1, 5), (2, 3), (3, 1)])
        N = weighted_choice(rng, [(0, 1), (1, 3), (2, 5), (3, 4), (4, 1), (5, 0.5)])
        if n == 4:
            N = min(N, 2)
        L = 1 << n
        # --- function model: start from a realisable function (so that SAT cases are common) or random
        style = weighted_choice(rng, [('random', 3), ('realisable', 5), ('input-copy', 1), ('equal-outputs', 1), ('const', 0.5)])
        rows = []
        if style == 'realisable' and N > 0:
            T = [var_lanes(i, n) for i in range(n)]
            mask = (1 << L) - 1
            for g in range(n, n + rng.randint(1, max(1, N))):
                a, b = sorted(rng.sample(range(g), 2)) if g >= 2 else (0, 0)
                if g < 2:
                    break
                T.append(op_apply(rng.choice([tt_of_type(t) for t in BIN_TYPES]), T[a], T[b], mask))
            pool = T[n:] or T
            vals = [rng.choice(pool) for _ in range(m)]
        elif style == 'input-copy':
            vals = [var_lanes(rng.randrange(n), n) for _ in range(m)]
        elif style == 'const':
            vals = [rng.choice((0, (1 << L) - 1)) for _ in range(m)]
        else:
            vals = [rng.getrandbits(L) for _ in range(m)]
        if style == 'equal-outputs' and m > 1:
            vals = [vals[0]] * m
        dc_style = weighted_choice(rng, [('none', 5), ('some', 3), ('rows', 2), ('all', 0.4), ('one-output-all', 0.6)])
        care = []
        for h in range(m):
            if dc_style == 'none':
                care.append((1 << L) - 1)
            elif dc_style == 'some':
                care.append(rng.getrandbits(L) | rng.getrandbits(L))
            elif dc_style == 'rows':
                care.append(None)
            elif dc_style == 'all':
                care.append(0)
            else:
                care.append(0 if h == 0 else (1 << L) - 1)
        if dc_style == 'rows':
            rowmask = rng.getrandbits(L) | rng.getrandbits(L)
            care = [rowmask & (rng.getrandbits(L) | rng.getrandbits(L) | rng.getrandbits(L)) if rng.random() < 0.5 else rowmask for _ in range(m)]
        table = [[(bool((vals[h] >> t) & 1) if (care[h] >> t) & 1 else DontCare) for t in range(L)] for h in range(m)]
        as_str = rng.random() < 0.3
        model_kind = rng.choice(('tt', 'tt', 'py'))
        if model_kind == 'tt':
            arg = [''.join('*' if x == DontCare else ('1' if x else '0') for x in row) for row in table] if as_str else table
            fm = self.m['tt'].TruthTableModel(arg)
        else:
            def func(args, _table=table, _n=n):
                idx = 0
                for a in args:
                    idx = (idx << 1) | (1 if a else 0)
                return [_table[h][idx] for h in range(len(_table))]
            fm = self.m['pf'].PyFunctionModel(func, n, output_size=m)
        # --- basis
        bkind = weighted_choice(rng, [('AIG', 3), ('XAIG', 3), ('FULL', 3), ('custom', 3)])
        Basis, Operation = cs.Basis, cs.Operation
        if bkind == 'custom':
            allops = list(Operation)
            k = rng.choice((1, 2, 3, 5, 8, 1, 2, 3, 5, 8, 0))  # an empty basis admits no gate at all
            ops_list = [rng.choice(allops) for _ in range(k)]  # repeats allowed
            basis_arg = ops_list
            basis_again = list(ops_list)
            basis_tts = [o.value for o in ops_list]
            bdesc = 'custom:' + ','.join(sorted({o.name for o in ops_list}))
        else:
            be = getattr(Basis, bkind)
            sp = rng.choice(('enum', 'upper', 'lower'))
            basis_arg = be if sp == 'enum' else (bkind if sp == 'upper' else bkind.lower())
            basis_tts = [o.value for o in be.value]
            basis_again = basis_arg
            bdesc = f'{bkind}/{sp}'
        normalized = rng.random() < 0.2
        # --- constraints
        cons = {'fix': {}, 'forbid': set(), 'normalized': normalized}
        cons_calls = []
        internal = list(range(n, n + N))
        for _ in range(rng.choice((0, 0, 1, 1, 2, 3))):
            if not internal:
                break
            if rng.random() < 0.6:
                g = rng.choice(internal)
                if g in cons['fix'] or g < 2:
                    continue
                mode = rng.choice(('both', 'first', 'second', 'both+type', 'first+type', 'second+type'))
                a, b = sorted(rng.sample(range(g), 2))
                fx = {}
                kw = {}
                if mode.startswith('both'):
                    fx.update(first=a, second=b)
                    kw.update(first_predecessor=a, second_predecessor=b)
                elif mode.startswith('first'):
                    fx.update(first=a)
                    kw.update(first_predecessor=a)
                else:
                    fx.update(second=b)
                    kw.update(second_predecessor=b)
                if mode.endswith('type'):
                    t = rng.choice(BIN_TYPES)
                    fx['tt'] = tt_of_type(t)
                    kw['gate_type'] = self.GT[t]
                    kw['_tname'] = t
                cons['fix'][g] = fx
                cons_calls.append(('fix_gate', g, kw))
            else:
                to = rng.choice(internal)
                if to < 1:
                    continue
                fr = rng.randrange(to)
                cons['forbid'].add((fr, to))
                cons_calls.append(('forbid_wire', fr, to))
        alloc_fault = any(f.get('kind') == 'alloc-failure' for f in op.get('f', ()))
        if alloc_fault:
            # the allocation fails somewhere inside the first construction of the CNF; constraints (which also touch the
            # variable pool) are left out so that the fault lands in get_cnf()/find_circuit(), not in a half-applied setter
            cons = {'fix': {}, 'forbid': set(), 'normalized': normalized}
            cons_calls = []
        time_limit = rng.choice((None, None, 0, 1, 15, 15))
        if alloc_fault:
            time_limit = rng.choice((None, 0))
        solver = rng.choice(('default', 'minisat22', 'glucose3', 'cadical153'))
        desc = (f'n={n} m={m} N={N} basis={bdesc} norm={normalized} model={model_kind} dc={dc_style} '
                f'table={["".join("*" if x == DontCare else str(int(x)) for x in r) for r in table]} '
                f'cons={[(c[0],) + tuple(c[1:2]) + (({k: v for k, v in c[2].items() if k != "gate_type"},) if c[0] == "fix_gate" else (c[2],)) for c in cons_calls]} '
                f'time_limit={time_limit}')
        self.ev['call'] = desc
        st = self.res.stats.probes
        # --- drive the real code
        rejected = None
        try:
            finder = cs.CircuitFinderSat(fm, N, basis=basis_arg, need_normalized=normalized)
            if bkind == 'custom' and rng.random() < 0.3:
                # the caller goes on using the list it passed as the basis (a sweep that builds the next basis in the
                # same list): the finder was asked for the basis as it was when it was created
                if rng.random() < 0.5 or not basis_arg:
                    basis_arg.append(rng.choice([o for o in Operation]))
                else:
                    del basis_arg[rng.randrange(len(basis_arg)):]
                st.bump('caller-changed-its-basis-list-after-creating-the-finder')
            if rng.random() < 0.3:
                try:
                    finder.get_cnf()
                    st.bump('get_cnf-before-constraints')
                except MemoryError:
                    if not alloc_fault:
                        raise
                    st.bump('alloc-failure-inside-get_cnf')
            # a deliberately invalid constraint now and then: it must be rejected, and a rejected call imposes
            # nothing - the caller catches the error and goes on with the same finder
            if internal and rng.random() < 0.12 and not alloc_fault:
                bad = rng.choice(('absent', 'absent-pred', 'nopred', 'order', 'wire-order', 'wire-absent', 'not-a-two-input-type'))
                gt = {'gate_type': self.GT[rng.choice(BIN_TYPES)]} if rng.random() < 0.6 else {}
                if bad == 'not-a-two-input-type' and internal[-1] < 2:
                    bad = 'nopred'
                try:
                    if bad == 'not-a-two-input-type':
                        # well-placed predecessors, but a gate type no two-input gate can have: whatever the call
                        # raises, the caller that catches it has imposed nothing
                        g = internal[-1]
                        a, b = sorted(rng.sample(range(g), 2))
                        try:
                            finder.fix_gate(g, first_predecessor=a, second_predecessor=b, gate_type=self.GT[rng.choice(('NOT', 'IFF'))])
                        except Exception as e:  # noqa
                            st.bump(f'rejected-constraint-then-continued:{exc_name(e)}:not-a-two-input-type')
                            rejected = 'not-a-two-input-type'
                            raise _Rejected()
                    elif bad == 'absent':
                        finder.fix_gate(n + N + 3, first_predecessor=0, **gt)
                    elif bad == 'absent-pred':
                        finder.fix_gate(internal[-1], first_predecessor=n + N + 5, **gt)
                    elif bad == 'nopred':
                        finder.fix_gate(internal[-1], **gt)
                    elif bad == 'order':
                        finder.fix_gate(internal[-1], first_predecessor=internal[-1], second_predecessor=0, **gt)
                    elif bad == 'wire-order':
                        finder.forbid_wire(internal[-1], internal[0])
                    else:
                        finder.forbid_wire(0, n + N + 2)
                    self.ev['out'] = 'accepted-invalid'
                    return
                except _Rejected:
                    pass
                except Exception as e:  # noqa
                    if not is_instance_named(e, ('CircuitFinderError',)):
                        self.ev['out'] = f'rejected-with:{exc_name(e)}'
                        return
                    st.bump(f'rejected-constraint-then-continued:{exc_name(e)}')
            for c in cons_calls:
                if c[0] == 'fix_gate':
                    kw = {k: v for k, v in c[2].items() if not k.startswith('_')}
                    finder.fix_gate(c[1], **kw)
                else:
                    finder.forbid_wire(c[1], c[2])
        except Exception as e:  # noqa
            where = innermost_cirbo_frame(e)
            self.ev['out'] = f'unexpected:{exc_name(e)}@{where}'
            self.violate('setup-raised', f'{exc_name(e)}@{where}', f'{desc}: {exc_name(e)}: {e}')
            return
        fault = None
        for f in op.get('f', ()):
            if f['at'] == 'pool.call#1':
                fault = f['kind']
        uses_pool = bool(time_limit)
        kw = {}
        if time_limit is not None:
            kw['time_limit'] = time_limit
        calls_before = self.res.stats.peer_calls.get('sat.solve', 0)
        pool_before = self.res.stats.peer_calls.get('pool.call', 0)
        result = None
        exc = None
        try:
            if solver == 'default':
                result = finder.find_circuit(**kw)
            else:
                result = finder.find_circuit(solver, **kw)
        except Exception as e:  # noqa
            exc = e
        solves = self.res.stats.peer_calls.get('sat.solve', 0) - calls_before
        pools = self.res.stats.peer_calls.get('pool.call', 0) - pool_before
        value = [v & cmask for v, cmask in zip(vals, care)]
        nviol0 = len(self.res.violations)
        faulted = None
        if alloc_fault and isinstance(exc, MemoryError):
            # nothing was answered; the caller tries again with the same finder, now without the fault
            st.bump('alloc-failure-inside-find_circuit')
            self.ev['out'] = 'fault:alloc-failure'
            result, exc, solves, pools = self._retry_after_fault(finder, solver)
            faulted = 'alloc-failure'
        if any(f.get('kind') == 'backend-error' for f in op.get('f', ())) and solves:
            # the solver back end failed inside the job.  An exception that says so is fine; "no solution" or a circuit is
            # an answer and is judged like any other (below).  Then the fault is over and the same finder is asked again.
            st.bump('sat-backend-error-fired')
            if exc is not None and exc_name(exc) != 'NoSolutionError':
                st.bump(f'sat-backend-error-reached-the-caller:{exc_name(exc)}')
                self.ev['out'] = 'fault:backend-error'
                result, exc, solves, pools = self._retry_after_fault(finder, solver)
                faulted = 'backend-error'
        # --- outcomes under faults; afterwards the faults stop and the same finder is asked again: the fault must
        #     not have poisoned it (bounded liveness: one more job gives the right answer)
        if uses_pool and fault == 'timeout' and pools:
            st.bump('timeout-fired')
            if exc is None:
                self.violate('fault', 'timeout:returned-circuit', 'the job timed out but find_circuit returned a circuit')
            elif exc_name(exc) != 'SolverTimeOutError':
                if exc_name(exc) == 'NoSolutionError' and solves == 0:
                    pass  # [] in clauses: decided before the pool was used -- cannot happen here since pools > 0
                self.violate('fault', f'timeout:{exc_name(exc)}', f'the job timed out; expected SolverTimeOutError, got {exc_name(exc)}: {exc}')
            elif is_instance_named(exc, ('NoSolutionError',)):
                # whoever catches NoSolutionError - minimize_subcircuits does, before SolverTimeOutError - reads an
                # undecided search as "no circuit exists"; judged only where a circuit does exist
                est0 = leaves_estimate(n, N, len(set(basis_tts)))
                if est0 <= self.cfg['brute_budget'] * 20 and brute_force(n, N, care, value, basis_tts, cons, self.cfg['brute_budget']) is True:
                    self.violate('fault', 'timeout:reported-as-no-solution',
                                 f'the job timed out and the exception raised is a NoSolutionError although a circuit exists: {desc}')
            self.ev['out'] = 'fault:timeout'
            if len(self.res.violations) == nviol0:
                result, exc, solves, pools = self._retry_after_fault(finder, solver)
                faulted = 'timeout'
            else:
                return
        if uses_pool and fault == 'death' and pools:
            st.bump('worker-death-fired')
            if exc is None:
                self.violate('fault', 'death:returned-circuit', 'the worker died but find_circuit returned a circuit')
            elif exc_name(exc) == 'NoSolutionError':
                self.violate('fault', 'death:NoSolutionError', 'the worker died and find_circuit reported that no solution exists')
            self.ev['out'] = 'fault:death'
            if len(self.res.violations) == nviol0:
                result, exc, solves, pools = self._retry_after_fault(finder, solver)
                faulted = 'death'
            else:
                return
        # --- fault-free: liveness (exactly one solver job, or none when [] is a clause)
        if solves > 1 or pools > 1:
            self.violate('liveness', 'more-than-one-job', f'{solves} solver calls / {pools} pool jobs for one find_circuit')
        if faulted:
            self.ev['faulted'] = faulted
        if exc is not None and exc_name(exc) not in ('NoSolutionError',):
            where = innermost_cirbo_frame(exc)
            self.ev['out'] = f'unexpected:{exc_name(exc)}@{where}'
            tag = 'all-dont-care' if all(c == 0 for c in care) else ('some-dont-care' if any(c != (1 << L) - 1 for c in care) else 'total')
            self.violate('find-raised', f'{exc_name(exc)}@{where}:{tag}', f'{desc}: {exc_name(exc)}: {exc}')
            return
        from ..util import digest as _dg

        self.res.states.add('case:' + _dg([n, N, [v & c for v, c in zip(vals, care)], care, sorted(set(basis_tts)), normalized,
                                            sorted((g, sorted(fx.items())) for g, fx in cons['fix'].items()), sorted(cons['forbid']),
                                            'exc' if exc is not None else 'circuit']))
        est = leaves_estimate(n, N, len(set(basis_tts)))
        exists = None
        if est <= self.cfg['brute_budget'] * 20:
            exists = brute_force(n, N, care, value, basis_tts, cons, self.cfg['brute_budget'])
        key = (tuple(vals[h] & care[h] for h in range(m)), tuple(care), tuple(sorted(set(basis_tts))), normalized)
        if exc is not None:  # NoSolutionError
            self.ev['out'] = 'no-solution'
            if exists is True:
                self.violate('completeness', (f'after-rejected:{rejected}' if rejected else self._cons_tag(cons_calls)),
                             f'NoSolutionError although a circuit exists{" (a fix_gate call with " + rejected + " was rejected before and caught)" if rejected else ""}: {desc}')
            elif exists is False:
                st.bump('no-solution-confirmed-by-brute-force')
            else:
                st.bump('no-solution-not-decidable-by-brute-force')
                # metamorphic: a solution with N' <= N gates and no extra constraints was found earlier in this run
                prev = self.found.get(key)
                if prev is not None and prev <= N and not cons_calls and prev >= 1:
                    self.violate('completeness', 'metamorphic', f'a {prev}-gate circuit was found earlier, now N={N} reports no solution: {desc}')
            if not op.get('f') and rng.random() < 0.15:
                self._second_finder_same_model(rng, cs, fm, n, m, N, care, vals, value, basis_again, basis_tts, normalized, desc)
            return
        # --- a circuit was returned: soundness
        self.ev['out'] = 'circuit'
        if exists is False:
            self.violate('soundness', 'circuit-where-none-exists', f'brute force finds no circuit, yet one was returned: {desc}')
        if not cons_calls:
            self.found[key] = min(self.found.get(key, 99), N)
        self.judge_circuit(result, n, m, N, care, vals, basis_tts, cons, cons_calls, desc)
        self.res.states.add(observe.snap(result)[0].shape_digest() if result is not None else 'none')
        if not op.get('f') and rng.random() < 0.12:
            self._second_finder_same_model(rng, cs, fm, n, m, N, care, vals, value, basis_again, basis_tts, normalized, desc)
            return
        # incremental use: one more constraint on the same finder, then ask again
        if rng.random() < 0.25 and not op.get('f') and internal:
            try:
                extra = None
                free = [g for g in internal if g not in cons['fix'] and g >= 2]
                if free and rng.random() < 0.6:
                    g = rng.choice(free)
                    a, b = sorted(rng.sample(range(g), 2))
                    mode = rng.choice(('both', 'first', 'second'))
                    fx = {'first': a, 'second': b} if mode == 'both' else ({'first': a} if mode == 'first' else {'second': b})
                    kw2 = {('first_predecessor' if k == 'first' else 'second_predecessor'): v for k, v in fx.items()}
                    finder.fix_gate(g, **kw2)
                    cons['fix'][g] = fx
                    extra = ('fix_gate', g, kw2)
                else:
                    to = rng.choice(internal)
                    if to >= 1:
                        fr = rng.randrange(to)
                        finder.forbid_wire(fr, to)
                        cons['forbid'].add((fr, to))
                        extra = ('forbid_wire', fr, to)
                if extra is not None:
                    cons_calls = cons_calls + [extra]
                    st.bump('constraint-added-after-a-first-find_circuit')
                    res2 = exc2 = None
                    try:
                        res2 = finder.find_circuit(**kw) if solver == 'default' else finder.find_circuit(solver, **kw)
                    except Exception as e:  # noqa
                        exc2 = e
                    exists2 = brute_force(n, N, care, value, basis_tts, cons, self.cfg['brute_budget']) if est <= self.cfg['brute_budget'] * 20 else None
                    d2 = desc + f' [then {extra[0]}{extra[1:]} and find_circuit again]'
                    if exc2 is not None:
                        if exc_name(exc2) != 'NoSolutionError':
                            self.violate('find-raised', f'{exc_name(exc2)}:after-added-constraint', f'{d2}: {exc_name(exc2)}: {exc2}')
                        elif exists2 is True:
                            self.violate('completeness', (f'after-rejected:{rejected}' if rejected else 'after-added-constraint:' + self._cons_tag([extra])),
                                         f'NoSolutionError although a circuit exists: {d2}')
                    else:
                        if exists2 is False:
                            self.violate('soundness', 'circuit-where-none-exists:after-added-constraint', d2)
                        self.judge_circuit(res2, n, m, N, care, vals, basis_tts, cons, cons_calls, d2)
                    return
            except Exception as e:  # noqa
                if not is_instance_named(e, ('CircuitFinderError',)):
                    self.violate('setup-raised', f'{exc_name(e)}:incremental', str(e))
                return
        # find_circuit twice on the same finder
        if rng.random() < 0.25 and not op.get('f'):
            try:
                if result is not None and rng.random() < 0.6:
                    # the caller owns the returned circuit and edits it (post-processing) before asking again
                    lab = 'zz_post'
                    result.add_inputs([lab])
                    result.emplace_gate('zz_g', self.GT['NOT'], (lab,))
                    result.set_outputs(['zz_g'])
                    st.bump('returned-circuit-edited-before-second-call')
                again = finder.find_circuit(**kw) if solver == 'default' else finder.find_circuit(solver, **kw)
                self.judge_circuit(again, n, m, N, care, vals, basis_tts, cons, cons_calls, desc + ' [second call]')
                st.bump('find_circuit-called-twice')
            except Exception as e:  # noqa
                self.violate('second-call', exc_name(e), f'second find_circuit on the same finder raised {exc_name(e)}: {e}')

    def _second_finder_same_model(self, rng, cs, fm, n, m, N, care, vals, value, basis_again, basis_tts, normalized, desc):
        """The caller keeps its function model and hands the same object to another finder (other normalisation,
        other budget): the second search is about the function the caller specified, whatever the first finder did."""
        st = self.res.stats.probes
        norm2 = (not normalized) if rng.random() < 0.7 else normalized
        N2 = N if rng.random() < 0.7 else max(1, N + rng.choice((-1, 1)))
        cons2 = {'fix': {}, 'forbid': set(), 'normalized': norm2}
        d2 = f'{desc} [then a second finder over the same model object: N={N2} norm={norm2}]'
        st.bump('second-finder-over-the-same-model-object')
        res2 = exc2 = None
        try:
            res2 = cs.CircuitFinderSat(fm, N2, basis=basis_again, need_normalized=norm2).find_circuit()
        except Exception as e:  # noqa
            exc2 = e
        est = leaves_estimate(n, N2, len(set(basis_tts)))
        exists2 = brute_force(n, N2, care, value, basis_tts, cons2, self.cfg['brute_budget']) if est <= self.cfg['brute_budget'] * 20 else None
        if exc2 is not None:
            if exc_name(exc2) != 'NoSolutionError':
                self.violate('find-raised', f'{exc_name(exc2)}:second-finder-same-model', f'{d2}: {exc_name(exc2)}: {exc2}')
            elif exists2 is True:
                self.violate('completeness', 'second-finder-same-model', f'NoSolutionError although a circuit exists: {d2}')
            return
        if exists2 is False:
            self.violate('soundness', 'circuit-where-none-exists:second-finder-same-model', d2)
        self.judge_circuit(res2, n, m, N2, care, vals, basis_tts, cons2, [], d2)

    def _retry_after_fault(self, finder, solver):
        st = self.res.stats
        calls_before = st.peer_calls.get('sat.solve', 0)
        pool_before = st.peer_calls.get('pool.call', 0)
        result = exc = None
        try:
            result = finder.find_circuit() if solver == 'default' else finder.find_circuit(solver)
        except Exception as e:  # noqa
            exc = e
        st.probes.bump('find_circuit-again-after-fault')
        return result, exc, st.peer_calls.get('sat.solve', 0) - calls_before, st.peer_calls.get('pool.call', 0) - pool_before

    @staticmethod
    def _cons_tag(cons_calls):
        if not cons_calls:
            return 'unconstrained'
        tags = set()
        for c in cons_calls:
            if c[0] == 'forbid_wire':
                tags.add('forbid_wire')
            else:
                kw = c[2]
                tags.add('fix_gate:' + '+'.join(sorted(k for k in ('first_predecessor', 'second_predecessor', 'gate_type') if k in kw)))
        return ','.join(sorted(tags))

    def judge_circuit(self, circ, n, m, N, care, vals, basis_tts, cons, cons_calls, desc):
        st = self.res.stats.probes
        try:
            net, users = observe.snap(circ)
        except Exception as e:  # noqa
            self.violate('soundness', 'unreadable', str(e))
            return
        if len(net.inputs) != n:
            self.violate('soundness', 'inputs', f'{len(net.inputs)} inputs, the model has {n}')
            return
        internal = [g for g in net.gates if net.gates[g][0] != 'INPUT']
        if len(internal) != N:
            self.violate('soundness', 'gate-count', f'{len(internal)} gates, requested {N}')
            return
        # numbering of the API (inputs 0..n-1, gates n..n+N-1): the i-th input, and gates in the order cirbo's labels
        # s<k> give; should a build label its gates differently, the storage order is the numbering
        idx = {x: i for i, x in enumerate(net.inputs)}
        if all(g.startswith('s') and g[1:].isdigit() for g in internal):
            for g in internal:
                idx[g] = int(g[1:])
        else:
            for i, g in enumerate(internal):
                idx[g] = n + i
        bset = set(basis_tts)
        for g in internal:
            t, ops = net.gates[g]
            if len(ops) != 2:
                self.violate('soundness', 'arity', f'gate {g} has {len(ops)} operands')
                return
            for o in ops:
                if o not in idx or idx[o] >= idx[g]:
                    self.violate('soundness', 'topology', f'gate {g} reads {o}, which is not an input or an earlier gate')
                    return
            if t not in BIN_TYPES:
                self.violate('soundness', 'basis', f'gate {g} has type {t}')
                return
            if tt_of_type(t) not in bset:
                self.violate('soundness', 'basis', f'gate {g} has type {t} (table {tt_of_type(t)}) outside the requested basis')
                return
            if cons.get('normalized') and tt_of_type(t)[0] != '0':
                self.violate('soundness', 'constraint:normalized', f'gate {g} of type {t} has g(0,0)=1')
                return
        if len(net.outputs) != m:
            self.violate('soundness', 'output-count', f'{len(net.outputs)} outputs, model has {m}')
            return
        for o in net.outputs:
            if o not in internal:
                self.violate('soundness', 'output-not-at-gate', f'output {o} is not taken at a gate')
                return
        L = 1 << n
        mask = (1 << L) - 1
        try:
            val = net.lanes({x: var_lanes(i, n) for i, x in enumerate(net.inputs)}, mask)
        except ModelError as e:
            self.violate('soundness', 'uninterpretable', str(e))
            return
        for h, o in enumerate(net.outputs):
            if (val[o] ^ vals[h]) & care[h]:
                full = all(c == mask for c in care)
                self.violate('soundness', 'function:' + ('total' if full else 'dont-cares'),
                             f'output {h} disagrees with the model on a defined entry: {desc}')
                return
        # constraints
        by_idx = {i: g for g, i in idx.items()}
        for g, fx in cons['fix'].items():
            lab = by_idx.get(g)
            if lab is None or lab not in net.gates:
                continue
            t, ops = net.gates[lab]
            a, b = idx[ops[0]], idx[ops[1]]
            fp, sp = fx.get('first'), fx.get('second')
            if fp is not None and sp is not None:
                if (a, b) != (fp, sp):
                    self.violate('soundness', 'constraint:fix_gate:both', f'gate {g} reads ({a},{b}), fixed to ({fp},{sp})')
                    return
            elif fp is not None:
                if fp not in (a, b):
                    self.violate('soundness', 'constraint:fix_gate:first_predecessor', f'gate {g} reads ({a},{b}); {fp} was fixed as a predecessor')
                    return
            elif sp is not None:
                if sp not in (a, b):
                    self.violate('soundness', 'constraint:fix_gate:second_predecessor', f'gate {g} reads ({a},{b}); {sp} was fixed as a predecessor')
                    return
            if fx.get('tt') is not None and tt_of_type(t) != fx['tt']:
                self.violate('soundness', 'constraint:fix_gate:gate_type', f'gate {g} has table {tt_of_type(t)}, fixed to {fx["tt"]}')
                return
        for fr, to in cons['forbid']:
            lab = by_idx.get(to)
            if lab in net.gates and fr in (idx[net.gates[lab][1][0]], idx[net.gates[lab][1][1]]):
                self.violate('soundness', 'constraint:forbid_wire', f'wire {fr}->{to} is present although forbidden')
                return
        st.bump('returned-circuit-sound')
        self.ev.setdefault('circ', []).append(net.digest())
        if any(c != mask for c in care):
            st.bump('returned-circuit-with-dont-cares-sound')
        if cons_calls:
            st.bump('returned-circuit-under-constraints-sound')
