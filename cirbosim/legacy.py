"""Durable state from an earlier session: a restart with only saved files surviving.

A separate fresh interpreter (same code under test, same stubs) generates a few circuits
with the library's own generators and prints them as bench text - exactly what a user
would have saved to disk in an earlier session.  The current world loads them like any
other file.  Whatever the earlier process kept in memory (counters, caches) is gone;
only the text survives.
"""
import json
import os
import subprocess
import sys

_cache = None


def artifacts():
    global _cache
    if _cache is not None:
        return _cache
    env = dict(os.environ)
    env['PYTHONDONTWRITEBYTECODE'] = '1'
    env['PYTHONHASHSEED'] = '0'
    try:
        r = subprocess.run([sys.executable, '-m', 'cirbosim.legacy'], capture_output=True, text=True, timeout=120,
                           cwd=os.path.dirname(os.path.dirname(os.path.abspath(__file__))), env=env)
        line = [l for l in r.stdout.splitlines() if l.startswith('LEGACY:')]
        _cache = json.loads(line[-1][7:]) if line else []
    except Exception:
        _cache = []
    return _cache


def main():
    from cirbosim import world

    m = world.boot(need_z3=False)
    from cirbosim.peers import uuidsrc

    # the uuid source of the earlier session is seeded too (a fixed seed): the artifacts are a function of the code
    uuidsrc.source.reset(987654321, 'random')
    A, GEN = m['arith'], m['gen']
    out = []
    for fn in (lambda: A.generate_mul(3, 3), lambda: A.generate_mul(2, 4, type=A.MulMode.DADDA), lambda: A.generate_sum_n_bits(5),
               lambda: A.generate_square(3), lambda: GEN.generate_plus_one(3, 4), lambda: A.generate_sub_two_numbers(3, 2),
               lambda: A.generate_sum_weighted_bits_efficient([0, 0, 1, 2]), lambda: A.generate_div_mod(2)):
        try:
            out.append(fn().format_circuit())
        except Exception:
            pass
    sys.stdout.write('LEGACY:' + json.dumps(out) + '\n')


if __name__ == '__main__':
    main()
