"""RefNet: the independent reference model.  Imports nothing from cirbo.

A `Net` is a plain netlist (label -> (type name, operand labels)), an input list, an
output list and named blocks.  Gate semantics are written here from the text of the
properties (AND/OR/XOR fold, NAND/NOR/NXOR negate the fold, GT/LT/GEQ/LEQ compare the
first operand with the second, L*/R* read the left/right operand only).  Evaluation
is bit-parallel: a gate's value over `L` lanes is one Python integer.
"""
from __future__ import annotations

from .util import digest

UNARY = ('NOT', 'IFF')
CONST = ('ALWAYS_TRUE', 'ALWAYS_FALSE')
NARY = ('AND', 'OR', 'XOR', 'NAND', 'NOR', 'NXOR')
BIN_ONLY = ('GT', 'LT', 'GEQ', 'LEQ', 'LNOT', 'RNOT', 'LIFF', 'RIFF')
ALL_TYPES = ('INPUT',) + CONST + UNARY + NARY + BIN_ONLY
BENCH_TYPES = ('INPUT', 'NOT', 'AND', 'OR', 'NAND', 'NOR', 'XOR', 'NXOR', 'IFF')
SYMMETRIC = ('AND', 'OR', 'XOR', 'NAND', 'NOR', 'NXOR')


class ModelError(Exception):
    """The model cannot interpret the netlist (cycle, dangling operand, bad arity)."""


def arity_ok(t: str, k: int) -> bool:
    if t == 'INPUT':
        return k == 0
    if t in CONST:
        return True  # cirbo's constant operators accept (and ignore) any operands; the generators rely on it
    if t in UNARY:
        return k == 1
    if t in NARY:
        return k >= 2
    if t in BIN_ONLY:
        return k == 2
    return False


def apply_gate(t: str, ops: list, mask: int) -> int:
    """Value of a gate of type `t` on operand lane vectors `ops`."""
    if t == 'ALWAYS_TRUE':
        return mask
    if t == 'ALWAYS_FALSE':
        return 0
    if t == 'NOT':
        return ops[0] ^ mask
    if t == 'IFF':
        return ops[0]
    if t in ('AND', 'NAND'):
        r = mask
        for o in ops:
            r &= o
        return r if t == 'AND' else r ^ mask
    if t in ('OR', 'NOR'):
        r = 0
        for o in ops:
            r |= o
        return r if t == 'OR' else r ^ mask
    if t in ('XOR', 'NXOR'):
        r = 0
        for o in ops:
            r ^= o
        return r if t == 'XOR' else r ^ mask
    a, b = ops
    if t == 'GT':
        return a & (b ^ mask)
    if t == 'LT':
        return (a ^ mask) & b
    if t == 'GEQ':
        return a | (b ^ mask)
    if t == 'LEQ':
        return (a ^ mask) | b
    if t == 'LNOT':
        return a ^ mask
    if t == 'RNOT':
        return b ^ mask
    if t == 'LIFF':
        return a
    if t == 'RIFF':
        return b
    raise ModelError(f'unknown gate type {t}')


def var_lanes(i: int, n: int) -> int:
    """Lane vector of the i-th of n inputs over all 2^n assignments.

    Lane j is the assignment whose binary encoding is j with input 0 as the most
    significant bit (the column order of a truth table).
    """
    shift = n - 1 - i
    block = 1 << shift  # run length
    period = (1 << block) - 1  # `block` ones
    v = 0
    total = 1 << n
    pos = block
    while pos < total:
        v |= period << pos
        pos += 2 * block
    return v


class Net:
    __slots__ = ('gates', 'inputs', 'outputs', 'blocks')

    def __init__(self, gates=None, inputs=None, outputs=None, blocks=None):
        self.gates: dict[str, tuple[str, tuple[str, ...]]] = dict(gates or {})
        self.inputs: list[str] = list(inputs or [])
        self.outputs: list[str] = list(outputs or [])
        # name -> (inputs, gates, outputs)
        self.blocks: dict[str, tuple[list[str], list[str], list[str]]] = dict(blocks or {})

    def copy(self) -> 'Net':
        return Net(
            self.gates,
            self.inputs,
            self.outputs,
            {k: (list(a), list(b), list(c)) for k, (a, b, c) in self.blocks.items()},
        )

    # ---- structure -----------------------------------------------------------
    def users(self) -> dict[str, list[str]]:
        """label -> sorted multiset (as list) of gates listing it as an operand."""
        u: dict[str, list[str]] = {g: [] for g in self.gates}
        for g, (_, ops) in self.gates.items():
            for o in ops:
                if o in u:
                    u[o].append(g)
        for g in u:
            u[g].sort()
        return u

    def dangling(self) -> list[str]:
        bad = []
        for g, (_, ops) in self.gates.items():
            for o in ops:
                if o not in self.gates:
                    bad.append(f'{g}->{o}')
        return bad

    def topo(self, only=None) -> list[str]:
        """Operands-first order of all gates (or of the cone of `only`).  Raises
        ModelError on a cycle or a dangling operand."""
        order: list[str] = []
        state: dict[str, int] = {}
        roots = list(self.gates) if only is None else list(only)
        for r in roots:
            if r in state:
                continue
            if r not in self.gates:
                raise ModelError(f'dangling {r}')
            stack = [(r, 0)]
            state[r] = 1
            while stack:
                g, i = stack.pop()
                ops = self.gates[g][1]
                if i < len(ops):
                    stack.append((g, i + 1))
                    o = ops[i]
                    if o not in self.gates:
                        raise ModelError(f'dangling {g}->{o}')
                    s = state.get(o, 0)
                    if s == 1:
                        raise ModelError(f'cycle through {o}')
                    if s == 0:
                        state[o] = 1
                        stack.append((o, 0))
                else:
                    state[g] = 2
                    order.append(g)
        return order

    def is_acyclic(self) -> bool:
        try:
            self.topo()
            return True
        except ModelError:
            return False

    def cycle_reachable_from(self, roots) -> bool:
        """True iff following operand edges from `roots` can reach a cycle."""
        state: dict[str, int] = {}
        for r in roots:
            if r in state or r not in self.gates:
                continue
            stack = [(r, 0)]
            state[r] = 1
            while stack:
                g, i = stack.pop()
                ops = self.gates[g][1]
                if i < len(ops):
                    stack.append((g, i + 1))
                    o = ops[i]
                    if o not in self.gates:
                        continue
                    s = state.get(o, 0)
                    if s == 1:
                        return True
                    if s == 0:
                        state[o] = 1
                        stack.append((o, 0))
                else:
                    state[g] = 2
        return False

    def reach(self, start, inverse: bool) -> set[str]:
        """Gates reachable from `start`: along operand edges (inverse=False) or along
        user edges (inverse=True)."""
        if inverse:
            nxt = {g: [] for g in self.gates}
            for g, (_, ops) in self.gates.items():
                for o in ops:
                    if o in nxt:
                        nxt[o].append(g)
        else:
            nxt = {g: [o for o in ops if o in self.gates] for g, (_, ops) in self.gates.items()}
        seen: set[str] = set()
        stack = [s for s in start if s in self.gates]
        while stack:
            g = stack.pop()
            if g in seen:
                continue
            seen.add(g)
            stack.extend(nxt[g])
        return seen

    # ---- semantics -----------------------------------------------------------
    def lanes(self, assign: dict[str, int], mask: int, only=None, strict=True) -> dict[str, int]:
        """Evaluate every gate (or the cone of `only`) on lane vectors.  `assign`
        gives vectors for INPUT gates (and may pre-assign any other gate, which then
        acts as a cut point)."""
        val: dict[str, int] = dict(assign)
        if only is None:
            order = self.topo()
        else:
            order = self._topo_cut(only, val)
        for g in order:
            if g in val:
                continue
            t, ops = self.gates[g]
            if t == 'INPUT':
                raise ModelError(f'input {g} unassigned')
            if strict and not arity_ok(t, len(ops)):
                raise ModelError(f'arity {t}/{len(ops)} at {g}')
            val[g] = apply_gate(t, [val[o] for o in ops], mask)
        return val

    def _topo_cut(self, roots, cut) -> list[str]:
        order: list[str] = []
        state: dict[str, int] = {}
        for r in roots:
            if r in state or r in cut:
                continue
            stack = [(r, 0)]
            state[r] = 1
            while stack:
                g, i = stack.pop()
                ops = self.gates[g][1]
                if i < len(ops):
                    stack.append((g, i + 1))
                    o = ops[i]
                    if o in cut:
                        continue
                    if o not in self.gates:
                        raise ModelError(f'dangling {g}->{o}')
                    s = state.get(o, 0)
                    if s == 1:
                        raise ModelError(f'cycle through {o}')
                    if s == 0:
                        state[o] = 1
                        stack.append((o, 0))
                else:
                    state[g] = 2
                    order.append(g)
        return order

    def std_assign(self) -> tuple[dict[str, int], int]:
        n = len(self.inputs)
        return {x: var_lanes(i, n) for i, x in enumerate(self.inputs)}, (1 << (1 << n)) - 1

    def all_lanes(self) -> tuple[dict[str, int], int]:
        a, m = self.std_assign()
        return self.lanes(a, m), m

    def tt(self) -> list[int]:
        """Truth table: one lane integer per output, in output order."""
        a, m = self.std_assign()
        v = self.lanes(a, m, only=self.outputs)
        return [v[o] for o in self.outputs]

    # ---- misc ----------------------------------------------------------------
    def canon(self):
        return (
            sorted((g, t, list(ops)) for g, (t, ops) in self.gates.items()),
            list(self.inputs),
            list(self.outputs),
            sorted((k, list(a), sorted(b), list(c)) for k, (a, b, c) in self.blocks.items()),
        )

    def digest(self) -> str:
        return digest(self.canon())

    def shape_digest(self) -> str:
        """Digest invariant under renaming: canonical structural form (used only for
        the distinct-states measure)."""
        try:
            order = self.topo()
        except ModelError:
            return 'cyc:' + self.digest()
        idx: dict[str, int] = {}
        for x in self.inputs:
            idx.setdefault(x, len(idx))
        rows = []
        for g in order:
            idx.setdefault(g, len(idx))
        for g in order:
            t, ops = self.gates[g]
            rows.append((idx[g], t, [idx[o] for o in ops]))
        rows.sort()
        return digest((rows, [idx.get(o, -1) for o in self.outputs], len(self.blocks)))

    def to_bench(self, order=None) -> str:
        """Plain bench rendering (the model's own printer, used to hand netlists to
        cirbo's parser)."""
        lines = [f'INPUT({x})' for x in self.inputs]
        for g in order or list(self.gates):
            t, ops = self.gates[g]
            if t == 'INPUT':
                continue
            name = 'BUFF' if t == 'IFF' else t
            lines.append(f'{g} = {name}({", ".join(ops)})')
        lines += [f'OUTPUT({o})' for o in self.outputs]
        return '\n'.join(lines)


def bits_of(v: int, width: int) -> list[bool]:
    return [bool((v >> j) & 1) for j in range(width)]


def popcount(v: int) -> int:
    return bin(v).count('1')
