"""Seeded generation of model netlists (used by every engine as raw material)."""
from __future__ import annotations

import random

from .refnet import BIN_ONLY, CONST, NARY, UNARY, Net

ALPHABETS = ('plain', 'digits', 'keyword', 'at', 'long')
KEYWORD_PREFIXES = ('input', 'INPUT', 'output', 'OUTPUT', 'vdd', 'buff', 'not', 'Input_', 'and',
                    # operator names inside a label: DIFF0 contains IFF, SANDY contains AND, KNOT contains NOT ...
                    'DIFF', 'BIFFY', 'SANDY', 'XORO', 'KNOT', 'ORB', 'NORTH', 'BUFFER', 'GTX', 'LEQ_', 'IFF')


DERIVED_SUFFIXES = ('_0', '_1', '_2', '_3', '_n', '_not', '.0', '.1', '_', '_1_1')


def make_label(rng: random.Random, alphabet: str, k: int, taken, prefix: str = '') -> str:
    if alphabet != 'digits' and taken and rng.random() < 0.12:
        # a label derived from an existing one, the way tools name helper gates: <label>_1, <label>_n, <label>.0 ...
        base = rng.choice(sorted(taken))
        for suf in rng.sample(DERIVED_SUFFIXES, len(DERIVED_SUFFIXES)):
            if base + suf not in taken:
                return base + suf
    for attempt in range(50):
        if alphabet == 'digits':
            lab = str(k + attempt * 100)
        elif alphabet == 'keyword':
            lab = rng.choice(KEYWORD_PREFIXES) + rng.choice(('', '_', '.')) + f'{k}'
        elif alphabet == 'at':
            lab = rng.choice(('blk@', 'a@b@', 'x.y@')) + f'g{k}'
        elif alphabet == 'lookalike':
            # spelled like the names the library gives its own temporaries and generated gates
            lab = rng.choice(('tmp_', 'tmp_', 'new_', 's', 'subcircuit_')) + str(k if rng.random() < 0.5 else rng.randint(0, 12))
        elif alphabet == 'long':
            lab = 'gate_' + 'x' * rng.randint(8, 30) + f'[{k}]'
        else:
            lab = rng.choice('abcdefgh') + str(k)
        if attempt:
            lab += '_' * attempt
        if prefix + lab not in taken:
            return prefix + lab
    raise RuntimeError('label space exhausted')


def pick_type(rng: random.Random, types, have: int):
    """A type whose arity can be met with `have` available operand labels."""
    cands = [t for t in types if (t in CONST) or (have >= 1 and (t in UNARY or t in NARY or t in BIN_ONLY))]
    if not cands:
        return None
    return rng.choice(cands)


def pick_operands(rng: random.Random, t: str, pool: list, max_arity: int, allow_repeat=True):
    if t in CONST:
        # cirbo's own generators emit constants that carry (ignored) operands, e.g. ALWAYS_FALSE(x, x)
        if pool and rng.random() < 0.25:
            return tuple(rng.choice(pool) for _ in range(rng.randint(1, 2)))
        return ()
    if t in UNARY:
        return (rng.choice(pool),)
    k = 2 if t in BIN_ONLY else rng.randint(2, max(2, max_arity))
    if allow_repeat or len(pool) < k:
        return tuple(rng.choice(pool) for _ in range(k))
    return tuple(rng.sample(pool, k))


def random_net(
    rng: random.Random,
    n_inputs: int,
    n_gates: int,
    types,
    max_arity: int = 3,
    alphabet: str = 'plain',
    n_outputs=None,
    outputs_may_be_inputs=True,
    prefix: str = '',
    locality: float = 0.0,
) -> Net:
    gates = {}
    inputs = []
    for i in range(n_inputs):
        lab = prefix + str(i) if alphabet in ('plain', 'digits') else make_label(rng, alphabet, i, gates, prefix)
        if lab in gates:
            lab = make_label(rng, 'plain', i + 1000, gates, prefix)
        gates[lab] = ('INPUT', ())
        inputs.append(lab)
    labels = list(inputs)
    for j in range(n_gates):
        t = pick_type(rng, types, len(labels))
        if t is None:
            break
        lab = make_label(rng, alphabet if alphabet != 'digits' else 'plain', j, gates, prefix)
        pool = labels
        if locality and len(labels) > 4 and rng.random() < locality:
            pool = labels[-4:]
        gates[lab] = (t, pick_operands(rng, t, pool, max_arity))
        labels.append(lab)
    if n_outputs is None:
        n_outputs = rng.choice((0, 1, 1, 2, 2, 3))
    cand = labels if outputs_may_be_inputs else [l for l in labels if gates[l][0] != 'INPUT']
    outs = []
    if cand:
        # bias towards late gates, allow repeats
        for _ in range(n_outputs):
            if rng.random() < 0.6:
                outs.append(cand[-1 - min(len(cand) - 1, int(rng.expovariate(0.7)))])
            else:
                outs.append(rng.choice(cand))
    return Net(gates, inputs, outs)


def shuffled_bench(rng: random.Random, net: Net) -> str:
    """Bench text of `net` with gate lines in seeded order (use before definition)."""
    order = [g for g in net.gates if net.gates[g][0] != 'INPUT']
    rng.shuffle(order)
    return net.to_bench(order)
