"""Worker entry point: one fresh interpreter = one simulated world.

Usage: python -m cirbosim.worker   (job as one JSON object on stdin; result as one JSON
object on stdout, last line, prefixed with RESULT:).
"""
import faulthandler
import json
import sys


def main():
    job = json.loads(sys.stdin.read())
    faulthandler.enable()
    if job.get('watchdog'):
        faulthandler.dump_traceback_later(job['watchdog'], exit=True)
    from cirbosim import runner

    mode = job['mode']
    if mode == 'explore':
        out = runner.explore_batch(job)
    elif mode == 'exec':
        out = runner.exec_one(job)
    elif mode == 'shrink':
        out = runner.shrink(job)
    elif mode == 'world_prefix':
        out = runner.world_prefix(job)
    elif mode == 'world_trial':
        out = runner.world_trial(job)
    elif mode == 'selfcheck':
        from cirbosim import world
        from cirbosim.peers import cuts, sat

        world.boot()
        out = {'sat': sat.selfcheck(), 'cuts': cuts.selfcheck()}
    else:
        raise SystemExit(f'unknown mode {mode}')
    from cirbosim.util import cjson

    sys.stdout.write('RESULT:' + cjson(out) + '\n')
    sys.stdout.flush()


if __name__ == '__main__':
    main()
