"""Per-property wording for evidence files: how cases are generated and what makes a
state distinct / non-trivial; what each check assumes."""

_HIST = ("One evaluation = one simulated run: a seeded history of 8-40 public calls on a population of 1-4 "
         "long-lived Circuit objects (real cirbo code), each call resolved against the current world, with "
         "valid, deliberately invalid (expected-rejected) and fault-carrying flavours. distinct_nontrivial = "
         "number of distinct canonical structure digests (RefNet shape digest, invariant under renaming) of "
         "circuits that contain at least one non-input gate and were reached by a call that returned normally "
         "and passed every armed oracle.")

RULES = {
    'default': _HIST,
    'C02': _HIST + " Oracle after every normally returning call: WF predicate (operands/outputs exist, users index = operand relation as multiset, inputs = INPUT gates, acyclic, top_sort both directions, block labels exist, copy equal and unshared) and bystander-unchanged for every other population member.",
    'C10': _HIST + " Op mix biased to the six composition entry points; expected inputs/outputs/truth table computed by the model as the composition of the two functions.",
    'C19': _HIST + " Op mix biased to rename / replace_inputs / remove_gate / replace_subcircuit with model-manufactured equivalent replacements of cut-bounded cones.",
    'C14': _HIST + " Op mix biased to into_bench on circuits with every gate type, blocks, repeated outputs, GT(x,x) etc.",
}

ASSUMPTIONS = {
    'default': [
        'RefNet (cirbosim/refnet.py) implements the gate semantics stated in the properties correctly',
        'CPython 3.12, more_itertools, sortedcontainers and (where a SAT peer is involved) z3 are trusted',
        'peers are in-process stubs that stay inside the real peers\' documented contracts (DESIGN.md section 6.2)',
        'a clean batch is evidence over the seeds and bounds explored, not a proof',
    ],
}
