"""Per-property wording for evidence files: how cases are generated and what makes a
state distinct / non-trivial; what each check assumes."""

_HIST = ("One evaluation = one simulated run: a seeded history of 8-40 public calls on a population of 1-4 "
         "long-lived Circuit objects (real cirbo code), each call resolved against the current world, with "
         "valid, deliberately invalid (expected-rejected) and fault-carrying flavours. distinct_nontrivial = "
         "number of distinct canonical structure digests (RefNet shape digest, invariant under renaming) of "
         "circuits that contain at least one non-input gate and were reached by a call that returned normally "
         "and passed every armed oracle.")

RULES = {
    'default': _HIST,
    'C02': _HIST + " Oracle after every normally returning call: WF predicate (operands/outputs exist, users index = operand relation as multiset, inputs = INPUT gates, acyclic, top_sort both directions, block labels exist, copy equal and unshared) and bystander-unchanged for every other population member.",
    'C10': _HIST + " Op mix biased to the six composition entry points; expected inputs/outputs/truth table computed by the model as the composition of the two functions.",
    'C19': _HIST + " Op mix biased to rename / replace_inputs / remove_gate / replace_subcircuit with model-manufactured equivalent replacements of cut-bounded cones.",
    'C14': _HIST + " Op mix biased to into_bench on circuits with every gate type, blocks, repeated outputs, GT(x,x) etc.",
    'C07': _HIST + " Op `gadget` applies a summation generator (11 entry points, enum and string bases, both endiannesses, weights with repeats and gaps, shifts beyond both widths) to operand gates sampled from a live host; identity checked on every lane (exhaustive for hosts with <= 11 inputs, 768 seeded lanes with corner lanes otherwise).",
    'C08': _HIST + " Op `gadget` applies one of the seven add_mul* functions, generate_mul in six modes, add_square(_pow2_m1), generate_square; widths 1..8 x 1..8 (exhaustive lanes when the host has <= 11 inputs) plus Karatsuba widths 18, 20..24 on sampled lanes.",
    'C09': _HIST + " Op `gadget` applies subtraction, subtract-with-compare, div-mod, sqrt, equality, plus-one (all option combinations), if-then-else and the pairwise gadgets to operand gates of a live host.",
    'C05': _HIST + " Ops `tseytin` (output selections: all, subsets, repeats, empty, single) and `circuit_sat` (17 solver names, seeded model order) on population circuits with <= 8 inputs; the CNF is decided by the harness for every total input assignment (bit-parallel unit propagation, DPLL/z3 fallback).",
    'C13': _HIST + " Op `miter` pairs a population circuit with a random circuit of the same shape, an equivalent rewrite, a one-gate-off rewrite, itself, another population member or a circuit of a different shape.",
    'C11': _HIST + " Ops `bench_roundtrip` (format -> parse via string, list of lines, generator, or save/load through SimFS with missing parents / pre-existing longer file / mkdir race) and `bench_layout` (model netlist rendered in a seeded layout: any declaration order, any operator case, BUFF/vdd aliases, comments, blank lines). distinct_nontrivial additionally counts distinct round-tripped circuit shapes (prefix bench:).",
    'C16': _HIST + " Ops `codec` (encode/decode of population circuits incl. non-topological storage orders), `bitio`, `dictio` (arbitrary keys incl. non-ASCII, empty, 65535 bytes; every proper prefix of every file <= 600 bytes enumerated as a crash point, trailing bytes, short reads under three chunk policies) and `db_history` (open/add/get/save/close/re-open on None, BytesIO, SimFS .bin and .xz sources; every prefix of every saved file re-opened). distinct_nontrivial additionally counts distinct encoded circuits (codec:), bit strings (bits:), dictionary files (dict:) and DB histories (db:).",
    'C20': _HIST + " Op `traverse`: 1-4 generators (top_sort / dfs / bfs, seeded start sets, directions, hook subsets) in flight on one circuit, resumed in a seeded order; faults: abandon, re-entrant hook, raising hook; 8% of the ops run the cycle check on a deliberately (possibly) cyclic parsed netlist. distinct_nontrivial additionally counts distinct (task kinds, resume order) interleavings (sched:).",
    'C06': ("One evaluation = one simulated run of 2-6 synthesis cases. A case draws a function model (TruthTableModel from values or strings, or PyFunctionModel; n in 1..4, m in 1..3; don't-care patterns none / some / rows / one output all / all), a gate budget 0..5, a basis (AIG/XAIG/FULL as enum or string, or a custom Operation list with repeats), 0-3 fix_gate/forbid_wire constraints, normalisation, a time limit in {None, 0, 1, 15} and an explicit pool fault (timeout / worker death); the real CircuitFinderSat runs against SimSAT (seeded model choice and order) and SimPool on the virtual clock. Completeness is judged against a brute-force enumerator within a leaf budget. distinct_nontrivial = distinct (function table, care masks, N, basis, constraints, outcome) cases plus distinct returned circuit shapes."),
    'C04': ("One evaluation = one simulated run of 1-3 minimize_subcircuits calls on circuits over NOT + ten binary gate types (2-6 inputs, 3-25 gates, 1-3 outputs, dead logic, repeated operands), optionally fed back into a second call, with seeded basis/size/cut/time-limit parameters, SimCuts personality (faithful | adversarial), SimSAT model choice, per-call pool faults (timeout rate 0/5/25/60/100 %, worker death) and the batch's hash seed. distinct_nontrivial = distinct argument circuit shapes (RefNet shape digest) for which the call returned and was judged."),
}

ASSUMPTIONS = {
    'default': [
        'RefNet (cirbosim/refnet.py) implements the gate semantics stated in the properties correctly',
        'CPython 3.12, more_itertools, sortedcontainers and (where a SAT peer is involved) z3 are trusted',
        'peers are in-process stubs that stay inside the real peers\' documented contracts (DESIGN.md section 6.2)',
        'a clean batch is evidence over the seeds and bounds explored, not a proof',
        'bounds of the workloads: circuits of up to a few dozen gates (plus rare cases of 1100-2000 gates for traversals and the codec), '
        'functions compared on all rows up to 10 inputs and on 512 fixed rows up to 96 inputs, gate arity up to 9 (parity gates never wider than 11 operands: '
        'their CNF has 2^arity clauses), no recursion-depth cases for the recursive Tseytin walk',
    ],
}
