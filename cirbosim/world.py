"""World set-up: one OS process = one simulated world.

Imports the *real* cirbo from $VERIF_REPO (default /repo; pure Python, so importing
the working tree is the build) after installing the in-process peers: SimSAT as
`pysat`, SimCuts as `mockturtle_wrapper`, SimUUID as `uuid.uuid4`, SimPool/SimClock as
the names `pebble` / `datetime` inside cirbo.synthesis.circuit_search.
"""
import logging
import os
import sys

VERIF_DIR = os.path.dirname(os.path.dirname(os.path.abspath(__file__)))
REPO = os.environ.get('VERIF_REPO', '/repo')
DEPS = os.path.join(VERIF_DIR, '.deps')

_ready = False
mods = {}


class LogTap(logging.Handler):
    """Captures cirbo's own log records.  Used only to *classify* a violation (which
    branch ran), never to decide one."""

    def __init__(self):
        super().__init__(level=logging.DEBUG)
        self.marks = []

    def emit(self, record):
        try:
            msg = record.getMessage()
        except Exception:
            return
        if record.name.startswith('cirbo.minimization.subcircuit'):
            for key, tag in (
                ('All outputs have trivial input patterns', 'trivial-branch'),
                ('Smaller subcircuit not found', 'no-smaller'),
                ('out of time', 'timeout-skip'),
                ('becomes cyclic', 'cyclic-skip'),
                ('Improved circuit size', 'spliced'),
                ('Validation passed', 'validated'),
            ):
                if key in msg:
                    self.marks.append(tag)

    def take(self):
        m, self.marks = self.marks, []
        return m


logtap = LogTap()


def boot(need_z3=True):
    """Idempotent.  Returns dict of imported cirbo modules."""
    global _ready
    if _ready:
        return mods
    sys.dont_write_bytecode = True
    if need_z3 and os.path.isdir(DEPS) and DEPS not in sys.path:
        sys.path.append(DEPS)
    if REPO not in sys.path:
        sys.path.insert(0, REPO)
    from .peers import cuts, pool, sat, uuidsrc

    sat.install()
    cuts.install()
    uuidsrc.install()

    import cirbo  # noqa
    import cirbo.core.circuit.circuit as circuit_mod
    import cirbo.core.circuit.gate as gate_mod
    import cirbo.core.circuit.exceptions as cexc
    import cirbo.sat as sat_pkg
    import cirbo.sat.cnf.tseytin as tseytin_mod
    import cirbo.synthesis.circuit_search as cs_mod
    import cirbo.synthesis.exception as synexc
    import cirbo.synthesis.generation as gen_pkg
    import cirbo.synthesis.generation.arithmetics as arith_pkg
    import cirbo.minimization as min_pkg
    import cirbo.minimization.subcircuit as sub_mod
    import cirbo.minimization.exception as minexc
    import cirbo.circuits_db as db_pkg
    import cirbo.circuits_db.db as db_mod
    import cirbo.circuits_db.bit_io as bit_io
    import cirbo.circuits_db.binary_dict_io as bdio
    import cirbo.circuits_db.circuits_encoding as cenc
    import cirbo.circuits_db.exceptions as dbexc
    import cirbo.core.truth_table as tt_mod
    import cirbo.core.python_function as pf_mod
    import cirbo.core.logic as logic_mod
    import cirbo.core.circuit.validation as validation_mod
    import cirbo.sat.exceptions as satexc
    import cirbo.exceptions as rootexc

    assert os.path.realpath(cirbo.__file__).startswith(os.path.realpath(REPO)), cirbo.__file__

    # module-namespace seams
    cs_mod.pebble = pool.make_module()
    cs_mod.datetime = pool._DateTimeMod

    lg = logging.getLogger('cirbo')
    lg.setLevel(logging.DEBUG)
    lg.propagate = False
    lg.handlers[:] = [logtap]

    mods.update(
        cirbo=cirbo, circuit_mod=circuit_mod, gate=gate_mod, cexc=cexc, sat=sat_pkg,
        tseytin=tseytin_mod, cs=cs_mod, synexc=synexc, gen=gen_pkg, arith=arith_pkg,
        minimization=min_pkg, sub=sub_mod, minexc=minexc, db_pkg=db_pkg, db=db_mod,
        bit_io=bit_io, bdio=bdio, cenc=cenc, dbexc=dbexc, tt=tt_mod, pf=pf_mod,
        logic=logic_mod, validation=validation_mod, satexc=satexc, rootexc=rootexc,
        Circuit=circuit_mod.Circuit, Gate=gate_mod.Gate, pool=pool,
    )
    mods['GT'] = {
        n: getattr(gate_mod, n)
        for n in (
            'INPUT', 'ALWAYS_TRUE', 'ALWAYS_FALSE', 'AND', 'GEQ', 'GT', 'IFF', 'LEQ', 'LIFF',
            'LNOT', 'LT', 'NAND', 'NOR', 'NOT', 'NXOR', 'OR', 'RIFF', 'RNOT', 'XOR',
        )
    }
    _ready = True
    return mods


def real_components():
    return {
        'real': [
            'every module under cirbo/ imported from ' + REPO,
            'CPython, more_itertools, sortedcontainers, z3 (inside SimSAT)',
        ],
        'stub': [
            'pysat.formula.CNF / IDPool / pysat.solvers.Solver -> SimSAT (z3/DPLL decides, seeded model choice)',
            'pebble.ProcessPool / futures / ProcessExpired / deadline clock -> SimPool + SimClock (virtual time)',
            'mockturtle_wrapper.enumerate_cuts -> SimCuts (faithful | adversarial-but-admissible)',
            'uuid.uuid4 -> SimUUID (seeded order, explicit collisions)',
            'pathlib / lzma as seen by cirbo -> SimFS; byte streams -> SimStream',
            'datetime as seen by circuit_search -> SimClock',
        ],
    }
