"""cirbosim: deterministic simulation with fault injection for SPbSAT/cirbo."""
ENGINE_VERSION = 1
