"""Driver: batches -> fresh interpreters -> aggregation -> minimisation -> replay ->
evidence, KNOWN-FINDING / VIOLATION lines, exit code (0 held, 1 violation, 2 harness)."""
from __future__ import annotations

import concurrent.futures as cf
import fnmatch
import json
import os
import subprocess
import sys
import time

from . import ENGINE_VERSION
from .tiers import ENGINE_NAME, LEVEL, TIERS
from .util import Counter, H, cjson

VERIF = os.path.dirname(os.path.dirname(os.path.abspath(__file__)))
PY = os.environ.get('VERIF_PYTHON', '/venv/bin/python')
REPO = os.environ.get('VERIF_REPO', '/repo')
DEPS = os.path.join(VERIF, '.deps')
STATE_CAP = 4_000_000  # distinct-state digests kept exactly; beyond that the count is a lower bound
OUT = os.environ.get('VERIF_OUT', VERIF)  # evidence/ and replays/ go here (scratch dir for mutant self-tests)
if os.environ.get('VERIF_SCALE', '1') not in ('1', '1.0') and 'VERIF_OUT' not in os.environ:
    # scaled experiments never overwrite the registered evidence
    OUT = os.path.join('/tmp', 'cirbosim-scaled-out')
WHEELS = '/opt/veriftools/wheels'


def ensure_deps():
    if os.path.isdir(os.path.join(DEPS, 'z3')):
        return
    os.makedirs(DEPS, exist_ok=True)
    r = subprocess.run([PY, '-m', 'pip', 'install', '--no-index', '--find-links', WHEELS, '--target', DEPS,
                        '--quiet', 'z3-solver'], capture_output=True, text=True)
    if r.returncode != 0 and not os.path.isdir(os.path.join(DEPS, 'z3')):
        sys.stderr.write(r.stdout + r.stderr)
        raise SystemExit(2)


def hashseed_of(seed, prop, tier, batch):
    return H('hashseed', seed, prop, tier, batch) % 4294967295


def spawn(job, hashseed, timeout):
    env = dict(os.environ)
    env['PYTHONHASHSEED'] = str(hashseed)
    env['PYTHONDONTWRITEBYTECODE'] = '1'
    env['VERIF_REPO'] = REPO
    env.pop('PYTHONPATH', None)
    job = dict(job)
    job['watchdog'] = max(int(timeout) - 5, 5)
    try:
        r = subprocess.run([PY, '-m', 'cirbosim.worker'], input=cjson(job), capture_output=True, text=True,
                           cwd=VERIF, env=env, timeout=timeout)
    except subprocess.TimeoutExpired:
        return {'error': f'worker timed out after {timeout}s', 'job': {k: job[k] for k in job if k != 'run'}}
    for line in reversed(r.stdout.splitlines()):
        if line.startswith('RESULT:'):
            return json.loads(line[7:])
    return {'error': f'worker exit {r.returncode}', 'stderr': r.stderr[-3000:], 'stdout': r.stdout[-500:]}


def load_known():
    p = os.path.join(VERIF, 'known_findings.json')
    if not os.path.exists(p):
        return []
    with open(p) as f:
        return json.load(f).get('findings', [])


def match_known(sig, prop, known):
    for k in known:
        if k.get('property') == prop and k.get('status', 'open') == 'open':
            for pat in k.get('signatures', []):
                if fnmatch.fnmatchcase(sig, pat):
                    return k
    return None


def repo_rev():
    try:
        d = subprocess.run(['git', '-C', REPO, 'rev-parse', '--short', 'HEAD'], capture_output=True, text=True).stdout.strip()
        dirty = subprocess.run(['git', '-C', REPO, 'status', '--porcelain'], capture_output=True, text=True).stdout.strip()
        return d + ('+dirty' if dirty else '')
    except Exception:
        return 'unknown'


def check(prop, tier, seed, jobs, max_report=3):
    t0 = time.time()
    ensure_deps()
    cfg = TIERS[prop][tier]
    runs, batch, wall = cfg['runs'], cfg['batch'], cfg['wall']
    scale = float(os.environ.get('VERIF_SCALE', '1'))
    runs = max(batch, int(runs * scale))
    nb = (runs + batch - 1) // batch
    per_batch_timeout = int(os.environ.get('VERIF_BATCH_TIMEOUT', str(max(120, wall // 2))))
    batches = []
    for b in range(nb):
        start = b * batch
        count = min(batch, runs - start)
        batches.append({'mode': 'explore', 'prop': prop, 'tier': tier, 'seed': seed, 'batch': b, 'start': start, 'count': count})
    results = [None] * nb
    deadline = t0 + wall
    overrun = False
    with cf.ThreadPoolExecutor(max_workers=jobs) as ex:
        futs = {}
        for b, job in enumerate(batches):
            futs[ex.submit(_guarded_spawn, job, hashseed_of(seed, prop, tier, b), per_batch_timeout, deadline)] = b
        for f in cf.as_completed(futs):
            results[futs[f]] = f.result()
    agg = {'runs': 0, 'ops': 0, 'outcomes': Counter(), 'scheduled': Counter(), 'fired': Counter(), 'probes': Counter(),
           'peer_calls': Counter(), 'cross': Counter(), 'virtual_s': 0.0}
    states = set()
    state_overflow = False
    errors = []
    viol = []  # (batch, entry)
    samples = []
    digests = {}
    hashseeds = []
    for b, r in enumerate(results):
        if r is None or 'error' in r:
            errors.append({'batch': b, **(r or {'error': 'no result'})})
            continue
        agg['runs'] += r['runs']
        agg['ops'] += r['ops']
        for k in ('outcomes', 'scheduled', 'fired', 'probes', 'peer_calls', 'cross'):
            agg[k].merge(r[k])
        agg['virtual_s'] += r['virtual_s']
        if len(states) < STATE_CAP:
            states.update(r['states'])
        else:
            state_overflow = True
        for he in r['harness_errors']:
            errors.append({'batch': b, **he})
        for v in r['viol_runs']:
            viol.append((b, v))
        for s in r['samples']:
            if len(samples) < 3:
                samples.append(s)
        for idx, d in r['digests']:
            digests[idx] = d
        hashseeds.append(hashseed_of(seed, prop, tier, b))
    known = load_known()
    by_sig = {}
    for b, v in viol:
        for sig in v['sigs']:
            by_sig.setdefault(sig, []).append((b, v))
    known_hit = {}
    unknown = {}
    for sig in sorted(by_sig):
        k = match_known(sig, prop, known)
        if k is not None:
            known_hit.setdefault(k['id'], {'finding': k, 'count': 0, 'sigs': set()})
            known_hit[k['id']]['count'] += len(by_sig[sig])
            known_hit[k['id']]['sigs'].add(sig)
        else:
            unknown[sig] = by_sig[sig]
    lines = []
    for kid in sorted(known_hit):
        kh = known_hit[kid]
        lines.append(f"KNOWN-FINDING: property={prop} {kh['finding']['what']} [id={kid} hits={kh['count']}]")
    reported = []
    unconfirmed = []
    for sig in sorted(unknown)[:max_report]:
        cands = sorted(unknown[sig], key=lambda bv: (len(bv[1]['run']['ops']), bv[1]['idx']))
        done = False
        for b, v in cands[:3]:
            rep = minimise_and_confirm(prop, tier, seed, b, v, sig)
            if rep is not None:
                reported.append(rep)
                lines.append(f"VIOLATION property={prop} replay={rep['path']}")
                lines.append(f"  signature: {sig}")
                lines.append(f"  what: {rep['msg']}")
                lines.append(f"  minimised to {len(rep['run']['ops'])} ops (from {len(v['run']['ops'])}); seed={seed} run={v['idx']} hashseed={rep['hashseed']}"
                             + (f"; needs {len(rep['runs']) - 1} earlier run(s) in the same world" if rep.get('runs') else ''))
                done = True
                break
        if not done:
            unconfirmed.append(sig)
            try:
                d = os.path.join(OUT, 'replays', prop, 'unconfirmed')
                os.makedirs(d, exist_ok=True)
                for b, v in cands[:3]:
                    with open(os.path.join(d, f"{seed}-{v['idx']}-{H(sig) % 100000:05d}.json"), 'w') as f:
                        json.dump({'signature': sig, 'batch': b, 'hashseed': hashseed_of(seed, prop, tier, b), 'tier': tier,
                                   'batch_size': cfg['batch'], 'run': v['run'], 'first': v['first']}, f, indent=1, default=str)
            except Exception:
                pass
    for sig in sorted(unknown)[max_report:]:
        lines.append(f"  (further unlisted signature, not minimised: {sig}, {len(unknown[sig])} runs)")
    wall_s = time.time() - t0
    harness_fail = bool(errors) or bool(unconfirmed)
    write_evidence(prop, tier, seed, agg, states, samples, known_hit, unknown, reported, errors, wall_s, hashseeds, unconfirmed, jobs, state_overflow)
    for l in lines:
        print(l)
    rate = agg['runs'] / wall_s if wall_s else 0
    print(f"[{prop} {tier}] runs={agg['runs']} ops={agg['ops']} distinct_states={len(states)} wall={wall_s:.1f}s "
          f"({rate * 3600:.0f} runs/h) known_findings_hit={len(known_hit)} new_violations={len(reported)} harness_errors={len(errors)}")
    if reported:
        return 1
    if harness_fail:
        for e in errors[:5]:
            print('HARNESS-ERROR:', json.dumps(e)[:1500])
        for s in unconfirmed:
            print(f'HARNESS-ERROR: signature {s} was seen but did not reproduce in a fresh interpreter (not reported as a violation)')
        return 2
    return 0


def _guarded_spawn(job, hashseed, timeout, deadline):
    left = deadline - time.time()
    if left <= 5:
        return {'error': 'wall budget exhausted before batch start'}
    return spawn(job, hashseed, min(timeout, max(10, int(left))))


def minimise_and_confirm(prop, tier, seed, b, v, sig):
    hs = hashseed_of(seed, prop, tier, b)
    r = spawn({'mode': 'shrink', 'prop': prop, 'run': v['run'], 'sig': sig, 'budget': 300}, hs, 300)
    run = v['run']
    if r and r.get('ok'):
        run = r['run']
    conf = spawn({'mode': 'exec', 'prop': prop, 'run': run}, hs, 120)
    runs = None
    if not conf or 'error' in conf or sig not in conf.get('sigs', []):
        # fall back to the unminimised run
        run = v['run']
        conf = spawn({'mode': 'exec', 'prop': prop, 'run': run}, hs, 120)
        if not conf or 'error' in conf or sig not in conf.get('sigs', []):
            # the violation may depend on what earlier runs left behind in the same world (process):
            # replay the batch prefix, then delete earlier runs while the signature recurs
            runs, conf = world_history(prop, tier, seed, b, v, sig, hs)
            if runs is None:
                return None
            run = runs[-1]
    first = [x for x in conf['violations'] if f"{x['prop']}/{x['oracle']}/{x['disc']}" == sig][0]
    d = os.path.join(OUT, 'replays', prop)
    os.makedirs(d, exist_ok=True)
    path = os.path.join(d, f"{seed}-{v['idx']}-{H(sig) % 100000:05d}.json")
    body = {
        'header': {'property': prop, 'tier': tier, 'VERIF_SEED': seed, 'run_index': v['idx'], 'run_seed': run.get('run_seed'),
                   'hashseed': hs, 'engine': ENGINE_NAME[prop], 'engine_version': ENGINE_VERSION, 'repo': repo_rev()},
        'signature': sig,
        'violation': first,
        'run': run,
        'runs': runs,  # not None: the violation needs these runs executed before `run` in the same world (process)
        'events': conf['events'],
        'how_to_replay': f'bin/check {prop} --replay {path}',
    }
    with open(path, 'w') as f:
        json.dump(body, f, indent=1, default=str)
    return {'path': path, 'msg': first['msg'], 'run': run, 'hashseed': hs, 'runs': runs}


def world_history(prop, tier, seed, b, v, sig, hs):
    cfg = TIERS[prop][tier]
    start = b * cfg['batch']
    first = spawn({'mode': 'world_prefix', 'prop': prop, 'tier': tier, 'seed': seed, 'sig': sig, 'start': start, 'idx': v['idx']}, hs, 600)
    if not first or 'error' in first or not first.get('recurs'):
        return None, None
    runs = first['runs']
    conf = first['result']
    # ddmin over the earlier runs (each trial in a fresh interpreter)
    earlier, last = runs[:-1], runs[-1]
    n = 2
    tries = 0
    while earlier and tries < 40:
        chunk = max(1, len(earlier) // n)
        removed = False
        i = 0
        while i < len(earlier) and tries < 40:
            cand = earlier[:i] + earlier[i + chunk:]
            tries += 1
            r = spawn({'mode': 'world_trial', 'prop': prop, 'sig': sig, 'runs': cand + [last]}, hs, 300)
            if r and 'error' not in r and r.get('recurs'):
                earlier = cand
                conf = r['result']
                removed = True
                n = max(n - 1, 2)
            else:
                i += chunk
        if not removed:
            if chunk == 1:
                break
            n = min(n * 2, len(earlier))
    return earlier + [last], conf


def replay(prop, path):
    ensure_deps()
    with open(path) as f:
        body = json.load(f)
    hs = body['header']['hashseed']
    prop = body['header']['property']
    sig = body['signature']
    job = {'mode': 'exec', 'prop': prop, 'run': body['run']}
    if body.get('runs'):
        job['runs'] = body['runs']
    conf = spawn(job, hs, 600)
    if 'error' in conf:
        print('HARNESS-ERROR:', json.dumps(conf)[:2000])
        return 2
    if sig in conf.get('sigs', []):
        print(f'VIOLATION property={prop} replay={path}')
        print(f'  signature: {sig}')
        first = [x for x in conf['violations'] if f"{x['prop']}/{x['oracle']}/{x['disc']}" == sig][0]
        print(f"  what: {first['msg']}")
        same = conf['events'] == body.get('events')
        print(f'  event log identical to the recorded one: {same}')
        return 1
    print(f'replay of {path}: signature {sig} did not recur (signatures seen: {conf.get("sigs")})')
    return 0


def write_evidence(prop, tier, seed, agg, states, samples, known_hit, unknown, reported, errors, wall_s, hashseeds, unconfirmed, jobs, state_overflow):
    from .world import real_components
    from .rules import RULES, ASSUMPTIONS

    runs = agg['runs']
    cov = {
        'evaluations': runs,
        'distinct_nontrivial': len(states),
        'distinct_nontrivial_is_lower_bound': bool(state_overflow),
        'rule': RULES.get(prop, RULES['default']),
        'samples': samples or [{'note': 'no clean sample collected'}],
        'exhaustive': False,
        'ops_executed': agg['ops'],
        'runs_per_hour': round(runs / wall_s * 3600) if wall_s else 0,
        'seeds_per_hour': round(runs / wall_s * 3600) if wall_s else 0,
        'workers': jobs,
        'virtual_seconds_covered': round(agg['virtual_s'], 3),
        'faults': {'scheduled': dict(sorted(agg['scheduled'].items())), 'fired': dict(sorted(agg['fired'].items()))},
        'outcomes': dict(sorted(agg['outcomes'].items())),
        'probes': dict(sorted(agg['probes'].items())),
        'peer_calls': dict(sorted(agg['peer_calls'].items())),
        'cross_property_observations': dict(sorted(agg['cross'].items())),
        'hash_seeds_used': len(set(hashseeds)),
        'hash_seed_examples': hashseeds[:5],
        'components': real_components(),
        'known_findings_hit': {k: {'hits': v['count'], 'signatures': sorted(v['sigs'])} for k, v in sorted(known_hit.items())},
        'new_violation_signatures': sorted(unknown),
        'replays': [r['path'] for r in reported],
        'harness_errors': len(errors),
        'unconfirmed_signatures': unconfirmed,
        'repo': repo_rev(),
        'engine': ENGINE_NAME[prop],
    }
    ev = {
        'property_id': prop, 'tier': tier, 'seed': seed, 'level': LEVEL[prop], 'coverage': cov,
        'assumptions': ASSUMPTIONS.get(prop, ASSUMPTIONS['default']), 'wall_s': round(wall_s, 2), 'violations': len(reported),
    }
    d = os.path.join(OUT, 'evidence')
    os.makedirs(d, exist_ok=True)
    with open(os.path.join(d, f'{prop}.json'), 'w') as f:
        json.dump(ev, f, indent=1, sort_keys=True)


def main(argv):
    if len(argv) < 2:
        print('usage: check <Cxx> [quick|thorough] | check <Cxx> --replay <file>')
        return 2
    prop = argv[1]
    if '--replay' in argv:
        if len(argv) >= 4 and argv[2] == '--replay' and argv[3]:
            return replay(prop, argv[3])
        print('usage: check <Cxx> --replay <file>')
        return 2
    if prop not in TIERS:
        print(f'{prop}: not a claimed property (see MANIFEST.json not_applicable)')
        return 2
    tier = argv[2] if len(argv) >= 3 else os.environ.get('VERIF_TIER', 'quick')
    seed = int(os.environ.get('VERIF_SEED', '0'))
    jobs = int(os.environ.get('VERIF_JOBS', '16'))
    return check(prop, tier, seed, jobs)


if __name__ == '__main__':
    sys.exit(main(sys.argv))
