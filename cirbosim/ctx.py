"""Per-op simulation context shared by all peers.

The engine sets `cur` before executing an op.  Peers read their decisions from it:
a private PRNG seeded from the op's sub-seed, and the op's *explicit* fault list
(peers never draw a fault themselves).  Counters record what was scheduled and what
actually fired.
"""
import random

from .util import Counter, H


class OpCtx:
    def __init__(self, sub: int = 0, faults=None, stats=None):
        self.sub = sub
        self.faults = list(faults or [])
        self.calls = Counter()  # site -> number of calls so far in this op
        self.stats = stats if stats is not None else Stats()
        self.clock = 0.0  # virtual seconds, advanced only by SimPool
        self.peer_log = []  # short, deterministic notes from peers for the event log
        self.cfg = {}  # per-run peer personalities

    def rng(self, *site) -> random.Random:
        return random.Random(H(self.sub, *site))

    def fault_at(self, site: str):
        """Return the fault scheduled for the n-th call at `site` in this op (and count
        the call).  Fault entries look like {"at": "pool.call#2", "kind": "timeout"}."""
        self.calls.bump(site)
        key = f'{site}#{self.calls[site]}'
        for f in self.faults:
            if f.get('at') == key:
                self.stats.fired.bump(f'{site}:{f["kind"]}')
                return f
        return None


class Stats:
    def __init__(self):
        self.scheduled = Counter()  # fault kinds placed in op lists
        self.fired = Counter()  # fault kinds that actually hit a call
        self.probes = Counter()  # "rare condition was hit"
        self.outcomes = Counter()
        self.peer_calls = Counter()
        self.virtual_s = 0.0


cur = OpCtx()


def set_cur(c: OpCtx):
    global cur
    cur = c
    return c
