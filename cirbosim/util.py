"""Small shared helpers: hashing, canonical JSON, seeded sub-PRNGs.

Nothing in here reads a clock, draws from a shared PRNG or iterates an unordered
container: everything is a pure function of its arguments.
"""
import hashlib
import json
import random

MASK64 = (1 << 64) - 1


def H(*parts) -> int:
    """64-bit hash of the canonical rendering of `parts` (stable across processes)."""
    h = hashlib.sha256(cjson(parts).encode()).digest()
    return int.from_bytes(h[:8], 'big')


def cjson(obj) -> str:
    return json.dumps(obj, sort_keys=True, separators=(',', ':'), default=_default)


def _default(o):
    if isinstance(o, (set, frozenset)):
        return sorted(o)
    if isinstance(o, tuple):
        return list(o)
    if isinstance(o, bytes):
        return o.hex()
    return repr(o)


def digest(obj) -> str:
    return hashlib.sha256(cjson(obj).encode()).hexdigest()[:16]


def rng_of(*parts) -> random.Random:
    return random.Random(H(*parts))


def weighted_choice(rng: random.Random, table):
    """table: list of (item, weight) in a fixed order."""
    total = sum(w for _, w in table)
    if total <= 0:
        return table[0][0]
    x = rng.random() * total
    acc = 0.0
    for item, w in table:
        acc += w
        if x < acc:
            return item
    return table[-1][0]


class Counter(dict):
    """dict of ints with `+=`-style bump; JSON friendly, merge-able."""

    def bump(self, key, n=1):
        self[key] = self.get(key, 0) + n

    def merge(self, other):
        for k, v in other.items():
            self[k] = self.get(k, 0) + v
        return self
